#![no_main]
//! Coverage-guided companion of the C12 proptest properties: the bytes are tried as
//! a TTL spelling, as a query string (TTL and read options) and as the JSON of a frame
//! (the POST /import body). The oracle is inside the target:
//!  * parse_ttl agrees with the documented grammar (written out again here);
//!  * whatever the option parser accepts survives print -> parse unchanged;
//!  * whatever frame JSON is accepted serialises to JSON that parses back to an
//!    identical frame (nothing accepted can poison later reads), and printing is stable.
use libfuzzer_sys::fuzz_target;
use xs::store::{parse_ttl, Frame, ReadOptions, TTL};

fn grammar(s: &str) -> Option<TTL> {
    match s {
        "forever" => Some(TTL::Forever),
        "ephemeral" => Some(TTL::Ephemeral),
        _ => {
            if let Some(n) = s.strip_prefix("time:") {
                if !n.is_empty() && n.bytes().all(|b| b.is_ascii_digit()) {
                    return n.parse::<u64>().ok().map(|ms| TTL::Time(std::time::Duration::from_millis(ms)));
                }
                None
            } else if let Some(n) = s.strip_prefix("head:") {
                if !n.is_empty() && n.bytes().all(|b| b.is_ascii_digit()) {
                    return n.parse::<u32>().ok().filter(|k| *k >= 1).map(TTL::Head);
                }
                None
            } else {
                None
            }
        }
    }
}

fuzz_target!(|data: &[u8]| {
    if let Ok(s) = std::str::from_utf8(data) {
        // 1. TTL spelling (a leading '+' is accepted by Rust's integer parser; the docs are silent)
        if !s.contains('+') {
            let got = parse_ttl(s).ok();
            let want = grammar(s);
            assert_eq!(got, want, "parse_ttl({s:?})");
        }
        if let Ok(t) = parse_ttl(s) {
            let j = serde_json::to_string(&t).unwrap();
            let back: TTL = serde_json::from_str(&j).expect("printed TTL parses");
            assert_eq!(back, t);
            let q = t.to_query();
            assert_eq!(TTL::from_query(Some(&q)).expect("printed TTL query parses"), t);
        }
        // 2. query strings
        if let Ok(t) = TTL::from_query(Some(s)) {
            assert_eq!(TTL::from_query(Some(&t.to_query())).unwrap(), t);
        }
        if let Ok(o) = ReadOptions::from_query(Some(s)) {
            let q = o.to_query_string();
            let back = ReadOptions::from_query(if q.is_empty() { None } else { Some(&q) })
                .unwrap_or_else(|e| panic!("options {o:?} print as {q:?} which does not parse: {e}"));
            assert_eq!(back, o, "options from {s:?} printed as {q:?}");
        }
    }
    // 3. frame JSON (the import body)
    if let Ok(f) = serde_json::from_slice::<Frame>(data) {
        let text = serde_json::to_string(&f).expect("an accepted frame serialises");
        let back: Frame = serde_json::from_str(&text)
            .unwrap_or_else(|e| panic!("accepted frame prints as JSON that does not parse back: {e}: {text}"));
        assert!(back == f, "accepted frame changes across print -> parse: {text}");
        assert_eq!(serde_json::to_string(&back).unwrap(), text, "printing is not stable");
    }
});
