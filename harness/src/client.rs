//! Driver side of the executor protocol.

use std::io::{BufRead, BufReader, Read, Write};
use std::path::{Path, PathBuf};
use std::process::{Child, ChildStdin, ChildStdout, Command, Stdio};
use std::sync::atomic::{AtomicU64, Ordering};

use serde_json::Value;

use crate::exec::{Cmd, FollowItem};
use crate::wire::*;

/// Error talking to the executor: this is infrastructure, never a violation by
/// itself (the caller decides what a dead or panicked executor means).
#[derive(Debug, Clone)]
pub enum ExecErr {
    /// the command returned an xs-level error (`Result::Err`)
    Err(String),
    /// xs panicked while executing the command
    Panic(String),
    /// the executor process is gone (EOF on its stdout)
    Died(String),
}

impl std::fmt::Display for ExecErr {
    fn fmt(&self, f: &mut std::fmt::Formatter) -> std::fmt::Result {
        match self {
            ExecErr::Err(s) => write!(f, "error: {s}"),
            ExecErr::Panic(s) => write!(f, "panic: {s}"),
            ExecErr::Died(s) => write!(f, "executor died: {s}"),
        }
    }
}

pub type XResult<T> = Result<T, ExecErr>;

static DIR_SEQ: AtomicU64 = AtomicU64::new(0);

pub fn scratch_root() -> PathBuf {
    let base = std::env::var_os("XSV_SCRATCH")
        .map(PathBuf::from)
        .unwrap_or_else(|| {
            let shm = PathBuf::from("/dev/shm");
            if shm.is_dir() {
                shm
            } else {
                std::env::temp_dir()
            }
        });
    base.join(format!("xsverif-{}", std::process::id()))
}

/// A fresh store directory, removed on drop.
pub struct StoreDir {
    pub path: PathBuf,
}

impl StoreDir {
    pub fn new() -> StoreDir {
        let n = DIR_SEQ.fetch_add(1, Ordering::SeqCst);
        let path = scratch_root().join(format!("s{n}"));
        std::fs::create_dir_all(&path).expect("create store dir");
        StoreDir { path }
    }
}

impl Drop for StoreDir {
    fn drop(&mut self) {
        let _ = std::fs::remove_dir_all(&self.path);
    }
}

pub struct Exec {
    child: Child,
    stdin: Option<ChildStdin>,
    stdout: BufReader<ChildStdout>,
    pub path: PathBuf,
    pub calls: u64,
}

#[derive(Clone, Debug, Default)]
pub struct ExecOpts {
    pub small_memtable: Option<u32>,
    pub env: Vec<(String, String)>,
}

fn self_exe() -> PathBuf {
    std::env::current_exe().expect("current_exe")
}

impl Exec {
    /// Start an executor on `path`. `Err(Panic)` if `Store::new` panicked,
    /// `Err(Died)` if the process vanished.
    pub fn spawn(path: &Path, opts: &ExecOpts) -> XResult<Exec> {
        let mut cmd = Command::new(self_exe());
        cmd.arg("exec").arg(path);
        if let Some(b) = opts.small_memtable {
            cmd.arg("--small-memtable").arg(b.to_string());
        }
        for (k, v) in &opts.env {
            cmd.env(k, v);
        }
        cmd.env("XSV_QUIET_PANICS", "1");
        cmd.stdin(Stdio::piped())
            .stdout(Stdio::piped())
            .stderr(Stdio::null());
        let mut child = cmd.spawn().expect("spawn executor");
        let stdin = child.stdin.take();
        let stdout = BufReader::new(child.stdout.take().unwrap());
        let mut ex = Exec {
            child,
            stdin,
            stdout,
            path: path.to_path_buf(),
            calls: 0,
        };
        let mut line = String::new();
        match ex.stdout.read_line(&mut line) {
            Ok(0) | Err(_) => {
                let st = ex.child.wait().ok();
                Err(ExecErr::Died(format!("no ready line, status {:?}", st)))
            }
            Ok(_) => {
                let v: Value = serde_json::from_str(&line)
                    .map_err(|e| ExecErr::Died(format!("bad ready line {line:?}: {e}")))?;
                if v.get("ready").and_then(|r| r.as_bool()) == Some(true) {
                    Ok(ex)
                } else {
                    let _ = ex.child.wait();
                    Err(ExecErr::Panic(format!("Store::new: {}", v)))
                }
            }
        }
    }

    pub fn call(&mut self, cmd: &Cmd) -> XResult<Value> {
        self.calls += 1;
        let line = serde_json::to_string(cmd).expect("serialise command");
        let stdin = self.stdin.as_mut().ok_or(ExecErr::Died("closed".into()))?;
        if writeln!(stdin, "{line}").is_err() || stdin.flush().is_err() {
            return Err(ExecErr::Died("write failed".into()));
        }
        let mut resp = String::new();
        match self.stdout.read_line(&mut resp) {
            Ok(0) | Err(_) => {
                let st = self.child.wait().ok();
                Err(ExecErr::Died(format!("EOF, status {:?}", st)))
            }
            Ok(_) => {
                let v: Value = serde_json::from_str(&resp)
                    .map_err(|e| ExecErr::Died(format!("bad response: {e}")))?;
                if let Some(o) = v.get("ok") {
                    Ok(o.clone())
                } else if let Some(e) = v.get("err") {
                    Err(ExecErr::Err(e.as_str().unwrap_or("?").to_string()))
                } else if let Some(p) = v.get("panic") {
                    Err(ExecErr::Panic(p.as_str().unwrap_or("?").to_string()))
                } else {
                    Err(ExecErr::Died(format!("unintelligible response {v}")))
                }
            }
        }
    }

    /// SIGKILL, reap.
    pub fn kill(mut self) {
        let _ = self.child.kill();
        let _ = self.child.wait();
    }

    /// SIGKILL and reap without consuming the handle (it is unusable afterwards).
    pub fn kill_ref(&mut self) {
        let _ = self.child.kill();
        let _ = self.child.wait();
        self.stdin = None;
    }

    pub fn scenario(
        &mut self,
        spec: &crate::director::ScenarioSpec,
    ) -> XResult<crate::director::ScenarioResult> {
        let v = self.call(&Cmd::Scenario { spec: spec.clone() })?;
        serde_json::from_value(v).map_err(|e| ExecErr::Died(format!("scenario result: {e}")))
    }

    pub fn pid(&self) -> u32 {
        self.child.id()
    }

    /// Wait for the process to end by itself (crash shim); returns raw wait status.
    pub fn wait_exit(&mut self) -> Option<std::process::ExitStatus> {
        self.child.wait().ok()
    }

    // ---- typed wrappers -------------------------------------------------

    pub fn append(&mut self, spec: &FrameSpec, content: Option<&[u8]>) -> XResult<WFrame> {
        let v = self.call(&Cmd::Append {
            spec: spec.clone(),
            content: content.map(b64),
        })?;
        Ok(serde_json::from_value(v).expect("WFrame"))
    }
    pub fn import(&mut self, spec: &FrameSpec) -> XResult<()> {
        self.call(&Cmd::Import { spec: spec.clone() }).map(|_| ())
    }
    pub fn remove(&mut self, id: u128) -> XResult<()> {
        self.call(&Cmd::Remove { id }).map(|_| ())
    }
    pub fn get(&mut self, id: u128) -> XResult<Option<WFrame>> {
        let v = self.call(&Cmd::Get { id })?;
        Ok(serde_json::from_value(v).expect("Option<WFrame>"))
    }
    pub fn head(&mut self, topic: &str, ctx: u128) -> XResult<Option<WFrame>> {
        let v = self.call(&Cmd::Head {
            topic: topic.to_string(),
            ctx,
        })?;
        Ok(serde_json::from_value(v).expect("Option<WFrame>"))
    }
    pub fn read_sync(
        &mut self,
        last_id: Option<u128>,
        limit: Option<usize>,
        ctx: Option<u128>,
    ) -> XResult<Vec<WFrame>> {
        let v = self.call(&Cmd::ReadSync {
            last_id,
            limit,
            ctx,
        })?;
        Ok(serde_json::from_value(v).expect("Vec<WFrame>"))
    }
    pub fn read(&mut self, opts: &ROpts) -> XResult<Vec<WFrame>> {
        let v = self.call(&Cmd::Read { opts: opts.clone() })?;
        Ok(serde_json::from_value(v).expect("Vec<WFrame>"))
    }
    pub fn gc(&mut self) -> XResult<()> {
        self.call(&Cmd::Gc).map(|_| ())
    }
    pub fn clock(&mut self, ms: Option<u64>) -> XResult<()> {
        self.call(&Cmd::Clock { ms }).map(|_| ())
    }
    pub fn cas_insert(&mut self, bytes: &[u8], mode: &str) -> XResult<String> {
        let v = self.call(&Cmd::CasInsert {
            content: b64(bytes),
            mode: mode.to_string(),
        })?;
        Ok(v.as_str().unwrap().to_string())
    }
    pub fn cas_read(&mut self, hash: &str, sync: bool) -> XResult<Vec<u8>> {
        let v = self.call(&Cmd::CasRead {
            hash: hash.to_string(),
            sync,
        })?;
        Ok(unb64(v.as_str().unwrap()))
    }
    pub fn follow_start(&mut self, opts: &ROpts, cas_probe: bool, paused: bool) -> XResult<u32> {
        let v = self.call(&Cmd::FollowStart {
            opts: opts.clone(),
            cas_probe,
            paused,
        })?;
        Ok(v.as_u64().unwrap() as u32)
    }
    pub fn follow_pause(&mut self, h: u32, paused: bool) -> XResult<()> {
        self.call(&Cmd::FollowPause { h, paused }).map(|_| ())
    }
    /// (items so far, closed, executor clock in us)
    pub fn follow_poll(&mut self, h: u32) -> XResult<(Vec<FollowItem>, bool, u64)> {
        let v = self.call(&Cmd::FollowPoll { h })?;
        let items: Vec<FollowItem> = serde_json::from_value(v["items"].clone()).unwrap();
        Ok((
            items,
            v["closed"].as_bool().unwrap(),
            v["now_us"].as_u64().unwrap(),
        ))
    }
    pub fn follow_stop(&mut self, h: u32) -> XResult<()> {
        self.call(&Cmd::FollowStop { h }).map(|_| ())
    }
    /// One `xs::client` call inside the executor: Ok(body bytes) or Err(the client's error text).
    pub fn client(&mut self, op: crate::exec::ClientOp) -> XResult<Result<Vec<u8>, String>> {
        use base64::Engine as _;
        let v = self.call(&Cmd::Client { call: op })?;
        if let Some(e) = v.get("error").and_then(|e| e.as_str()) {
            return Ok(Err(e.to_string()));
        }
        let body = v.get("body").and_then(|b| b.as_str()).unwrap_or("");
        Ok(Ok(base64::engine::general_purpose::STANDARD.decode(body).unwrap_or_default()))
    }
    pub fn serve_api(&mut self) -> XResult<PathBuf> {
        let v = self.call(&Cmd::ServeApi)?;
        Ok(PathBuf::from(v.as_str().unwrap()))
    }
    pub fn serve_nu(&mut self, handlers: bool, generators: bool, commands: bool) -> XResult<()> {
        self.call(&Cmd::ServeNu {
            handlers,
            generators,
            commands,
        })
        .map(|_| ())
    }
    pub fn panics(&mut self) -> XResult<Vec<String>> {
        let v = self.call(&Cmd::Panics)?;
        Ok(serde_json::from_value(v).unwrap())
    }
}

impl Drop for Exec {
    fn drop(&mut self) {
        let _ = self.child.kill();
        let _ = self.child.wait();
    }
}

/// Read everything a reader has to give (helper for raw HTTP).
pub fn read_all<R: Read>(mut r: R) -> Vec<u8> {
    let mut v = Vec::new();
    let _ = r.read_to_end(&mut v);
    v
}
