//! Concurrency scenarios executed inside the executor under a generated
//! schedule (filled in by the C02/C03/C11 work).

use serde::{Deserialize, Serialize};
use serde_json::json;

#[derive(Debug, Serialize, Deserialize, Clone, Default)]
pub struct ScenarioSpec {}

pub fn run_scenario(_ex: &mut crate::exec::Executor, _spec: ScenarioSpec) -> serde_json::Value {
    json!({"err": "not implemented"})
}
