//! Schedule control inside the executor (DESIGN 6.3).
//!
//! The `verif` feature of xs calls `sync_point(label, id)` at named places in
//! the append and read paths. The director installs a callback that, per
//! (actor, label, occurrence), sleeps for a generated delay or holds the caller
//! until some other event has happened (bounded). Delays dominate the natural
//! microsecond-scale timing, so a generated schedule realises its intended
//! interleaving with high probability; nothing here decides anything — the
//! driver evaluates the oracles on the returned event log.

use std::cell::RefCell;
use std::collections::HashMap;
use std::sync::atomic::{AtomicBool, Ordering};
use std::sync::{Arc, Condvar, Mutex};
use std::time::{Duration, Instant};

use scru128::Scru128Id;
use serde::{Deserialize, Serialize};
use serde_json::json;

use crate::wire::*;

thread_local! {
    static ACTOR: RefCell<Option<String>> = const { RefCell::new(None) };
}

pub fn set_actor(name: &str) {
    ACTOR.with(|a| *a.borrow_mut() = Some(name.to_string()));
}

fn current_actor(label: &str) -> String {
    if let Some(a) = ACTOR.with(|a| a.borrow().clone()) {
        return a;
    }
    if label.starts_with("read.hist.") {
        "hist".into()
    } else if label.starts_with("read.live.") {
        "live".into()
    } else if label.starts_with("handler.") {
        "handler".into()
    } else {
        "other".into()
    }
}

#[derive(Debug, Serialize, Deserialize, Clone, PartialEq)]
pub struct Hold {
    /// wait until `count` events with this label (and actor, if given) have been seen
    pub label: String,
    pub actor: Option<String>,
    pub count: u32,
    pub max_ms: u32,
}

#[derive(Debug, Serialize, Deserialize, Clone, PartialEq)]
pub struct Rule {
    pub actor: Option<String>,
    pub label: String,
    /// 0-based occurrence of (actor, label); None = every occurrence
    pub occurrence: Option<u32>,
    pub delay_us: u64,
    pub hold: Option<Hold>,
}

#[derive(Debug, Serialize, Deserialize, Clone)]
pub struct Event {
    pub t_us: u64,
    pub actor: String,
    pub label: String,
    pub id: Option<String>,
}

#[derive(Default)]
struct State {
    rules: Vec<Rule>,
    counts: HashMap<(String, String), u32>,
    label_counts: HashMap<(Option<String>, String), u32>,
    log: Vec<Event>,
    logging: bool,
    hold_timeouts: u32,
}

struct Director {
    state: Mutex<State>,
    cv: Condvar,
    t0: Mutex<Option<Instant>>,
}

static DIRECTOR: std::sync::OnceLock<Arc<Director>> = std::sync::OnceLock::new();

fn director() -> Arc<Director> {
    DIRECTOR
        .get_or_init(|| {
            let d = Arc::new(Director {
                state: Mutex::new(State::default()),
                cv: Condvar::new(),
                t0: Mutex::new(None),
            });
            let d2 = d.clone();
            xs::verif::set_sync_hook(Some(Arc::new(move |label: &'static str, id: Option<Scru128Id>| {
                d2.on_sync(label, id);
            })));
            d
        })
        .clone()
}

impl Director {
    fn now_us(&self) -> u64 {
        self.t0
            .lock()
            .unwrap()
            .map(|t| t.elapsed().as_micros() as u64)
            .unwrap_or(0)
    }

    fn on_sync(&self, label: &'static str, id: Option<Scru128Id>) {
        let actor = current_actor(label);
        let (delay, hold) = {
            let mut st = self.state.lock().unwrap();
            if st.rules.is_empty() && !st.logging {
                return;
            }
            let occ = {
                let c = st.counts.entry((actor.clone(), label.to_string())).or_insert(0);
                let o = *c;
                *c += 1;
                o
            };
            *st.label_counts.entry((None, label.to_string())).or_insert(0) += 1;
            *st.label_counts
                .entry((Some(actor.clone()), label.to_string()))
                .or_insert(0) += 1;
            if st.logging && st.log.len() < 200_000 {
                let t_us = self.now_us();
                st.log.push(Event {
                    t_us,
                    actor: actor.clone(),
                    label: label.to_string(),
                    id: id.map(|i| i.to_string()),
                });
            }
            let rule = st.rules.iter().find(|r| {
                r.label == label
                    && r.actor.as_ref().map(|a| *a == actor).unwrap_or(true)
                    && r.occurrence.map(|o| o == occ).unwrap_or(true)
            });
            match rule {
                Some(r) => (r.delay_us, r.hold.clone()),
                None => (0, None),
            }
        };
        self.cv.notify_all();
        if let Some(h) = hold {
            let deadline = Instant::now() + Duration::from_millis(h.max_ms as u64);
            let mut st = self.state.lock().unwrap();
            loop {
                let seen = st
                    .label_counts
                    .get(&(h.actor.clone(), h.label.clone()))
                    .cloned()
                    .unwrap_or(0);
                if seen >= h.count {
                    break;
                }
                let now = Instant::now();
                if now >= deadline {
                    st.hold_timeouts += 1;
                    break;
                }
                let (g, _) = self.cv.wait_timeout(st, deadline - now).unwrap();
                st = g;
            }
        }
        if delay > 0 {
            std::thread::sleep(Duration::from_micros(delay));
        }
    }
}

/// Simple persistent rules (label -> delay for every occurrence, any actor).
pub fn set_delays(delays: Vec<(String, u64)>) {
    let d = director();
    let mut st = d.state.lock().unwrap();
    st.rules = delays
        .into_iter()
        .map(|(label, delay_us)| Rule {
            actor: None,
            label,
            occurrence: None,
            delay_us,
            hold: None,
        })
        .collect();
}

// ---------------------------------------------------------------------------
// scenarios
// ---------------------------------------------------------------------------

#[derive(Debug, Serialize, Deserialize, Clone, PartialEq)]
pub struct WriterSpec {
    pub start_delay_us: u64,
    /// (frame, pause before appending it in us)
    pub frames: Vec<(FrameSpec, u64)>,
    /// after each append, remove the stored frame this writer appended `lag` appends earlier:
    /// cursors held by last-id readers then name frames that are gone
    #[serde(default)]
    pub remove_lag: Option<u8>,
}

#[derive(Debug, Serialize, Deserialize, Clone, PartialEq, Default)]
pub struct FollowSpec {
    pub opts: ROpts,
    pub start_delay_us: u64,
    /// pause per received frame (us)
    pub pace_us: u64,
    /// after receiving this many frames stop receiving for `stall_ms`
    pub stall_after: Option<u32>,
    pub stall_ms: u32,
    /// read the content of each hashed frame on arrival
    pub cas_probe: bool,
}

#[derive(Debug, Serialize, Deserialize, Clone, PartialEq)]
pub struct PollSpec {
    #[serde(with = "opt_id_ser")]
    pub ctx: Option<u128>,
    pub interval_us: u64,
    pub limit: Option<usize>,
}

#[derive(Debug, Serialize, Deserialize, Clone, PartialEq, Default)]
pub struct ScenarioSpec {
    pub rules: Vec<Rule>,
    pub writers: Vec<WriterSpec>,
    pub followers: Vec<FollowSpec>,
    pub pollers: Vec<PollSpec>,
    /// after the writers are done: wait until every follower has at least this
    /// many frames (or is closed), at most `max_wait_ms`
    pub expect_min: Vec<u32>,
    pub settle_ms: u32,
    pub max_wait_ms: u32,
    pub log_events: bool,
}

#[derive(Debug, Serialize, Deserialize, Clone)]
pub struct WriterResult {
    /// per frame: (t_start_us, t_end_us, Ok(frame) | Err(msg))
    pub appends: Vec<(u64, u64, Result<WFrame, String>)>,
    /// ids this writer removed again (see WriterSpec::remove_lag)
    #[serde(default)]
    pub removed: Vec<String>,
}

#[derive(Debug, Serialize, Deserialize, Clone)]
pub struct FollowResult {
    /// when `Store::read` was called / when it had returned
    pub called_at_us: u64,
    pub subscribed_at_us: u64,
    pub items: Vec<crate::exec::FollowItem>,
    pub closed: bool,
    pub closed_at_us: Option<u64>,
}

#[derive(Debug, Serialize, Deserialize, Clone)]
pub struct PollResult {
    /// each poll: (t_us, last_id used, frames returned)
    pub polls: Vec<(u64, Option<String>, Vec<WFrame>)>,
}

#[derive(Debug, Serialize, Deserialize, Clone)]
pub struct ScenarioResult {
    pub writers: Vec<WriterResult>,
    pub followers: Vec<FollowResult>,
    pub pollers: Vec<PollResult>,
    pub final_all: Vec<WFrame>,
    pub events: Vec<Event>,
    pub hold_timeouts: u32,
    pub writers_done_at_us: u64,
    pub ended_at_us: u64,
}

pub struct FollowShared {
    items: Mutex<Vec<crate::exec::FollowItem>>,
    closed: AtomicBool,
    closed_at: Mutex<Option<u64>>,
    subscribed_at: Mutex<u64>,
    called_at: Mutex<u64>,
}

pub fn run_scenario(ex: &mut crate::exec::Executor, spec: ScenarioSpec) -> serde_json::Value {
    let d = director();
    let t0 = Instant::now();
    *d.t0.lock().unwrap() = Some(t0);
    {
        let mut st = d.state.lock().unwrap();
        st.rules = spec.rules.clone();
        st.counts.clear();
        st.label_counts.clear();
        st.log.clear();
        st.logging = spec.log_events;
        st.hold_timeouts = 0;
    }
    let now_us = move || t0.elapsed().as_micros() as u64;
    if let Some(old) = ex.scenario_stop.take() {
        old.store(true, Ordering::SeqCst);
    }
    let stop = Arc::new(AtomicBool::new(false));
    let writers_done = Arc::new(AtomicBool::new(false));
    let handle = ex.rt.handle().clone();

    // followers
    let mut fshared: Vec<Arc<FollowShared>> = Vec::new();
    let mut fthreads = Vec::new();
    for (k, fs) in spec.followers.iter().enumerate() {
        let sh = Arc::new(FollowShared {
            items: Mutex::new(Vec::new()),
            closed: AtomicBool::new(false),
            closed_at: Mutex::new(None),
            subscribed_at: Mutex::new(0),
            called_at: Mutex::new(0),
        });
        fshared.push(sh.clone());
        let store = ex.store.clone();
        let fs = fs.clone();
        let handle = handle.clone();
        let stop = stop.clone();
        fthreads.push(std::thread::spawn(move || {
            set_actor(&format!("f{k}"));
            if fs.start_delay_us > 0 {
                std::thread::sleep(Duration::from_micros(fs.start_delay_us));
            }
            let opts = fs.opts.to_xs();
            *sh.called_at.lock().unwrap() = t0.elapsed().as_micros() as u64;
            let mut rx = handle.block_on(async { store.read(opts).await });
            *sh.subscribed_at.lock().unwrap() = t0.elapsed().as_micros() as u64;
            let store2 = store.clone();
            handle.spawn(async move {
                let mut n = 0u32;
                loop {
                    if stop.load(Ordering::SeqCst) {
                        return;
                    }
                    match tokio::time::timeout(Duration::from_millis(20), rx.recv()).await {
                        Err(_) => continue,
                        Ok(None) => {
                            *sh.closed_at.lock().unwrap() = Some(t0.elapsed().as_micros() as u64);
                            sh.closed.store(true, Ordering::SeqCst);
                            return;
                        }
                        Ok(Some(f)) => {
                            let cas_ok = if fs.cas_probe {
                                match &f.hash {
                                    Some(h) => Some(store2.cas_read(h).await.is_ok()),
                                    None => None,
                                }
                            } else {
                                None
                            };
                            sh.items.lock().unwrap().push(crate::exec::FollowItem {
                                frame: WFrame::from_xs(&f),
                                t_us: t0.elapsed().as_micros() as u64,
                                cas_ok,
                            });
                            n += 1;
                            if fs.stall_after == Some(n) && fs.stall_ms > 0 {
                                tokio::time::sleep(Duration::from_millis(fs.stall_ms as u64)).await;
                            }
                            if fs.pace_us > 0 {
                                tokio::time::sleep(Duration::from_micros(fs.pace_us)).await;
                            }
                        }
                    }
                }
            });
        }));
    }

    // pollers
    let mut pthreads = Vec::new();
    for (k, ps) in spec.pollers.iter().enumerate() {
        let store = ex.store.clone();
        let ps = ps.clone();
        let writers_done = writers_done.clone();
        pthreads.push(std::thread::spawn(move || {
            set_actor(&format!("p{k}"));
            let mut polls = Vec::new();
            let mut last: Option<Scru128Id> = None;
            let mut after_done = 0;
            loop {
                let t = t0.elapsed().as_micros() as u64;
                let frames: Vec<xs::store::Frame> = store
                    .read_sync(last.as_ref(), ps.limit, ps.ctx.map(Scru128Id::from))
                    .collect();
                let used = last.map(|l| l.to_string());
                if let Some(f) = frames.last() {
                    last = Some(f.id);
                }
                let empty = frames.is_empty();
                polls.push((t, used, frames.iter().map(WFrame::from_xs).collect::<Vec<_>>()));
                if writers_done.load(Ordering::SeqCst) {
                    after_done += 1;
                    // keep polling until a poll comes back empty after the writers finished
                    if empty && after_done >= 2 {
                        break;
                    }
                }
                if polls.len() > 20_000 {
                    break;
                }
                std::thread::sleep(Duration::from_micros(ps.interval_us.max(50)));
            }
            PollResult { polls }
        }));
    }

    // writers
    let mut wthreads = Vec::new();
    for (k, ws) in spec.writers.iter().enumerate() {
        let store = ex.store.clone();
        let ws = ws.clone();
        wthreads.push(std::thread::spawn(move || {
            set_actor(&format!("w{k}"));
            if ws.start_delay_us > 0 {
                std::thread::sleep(Duration::from_micros(ws.start_delay_us));
            }
            let mut appends: Vec<(u64, u64, Result<WFrame, String>)> = Vec::new();
            let mut removed: Vec<String> = Vec::new();
            for (spec, pause) in ws.frames {
                if pause > 0 {
                    std::thread::sleep(Duration::from_micros(pause));
                }
                let t1 = t0.elapsed().as_micros() as u64;
                let res = match spec.to_xs() {
                    Ok(frame) => store
                        .append(frame)
                        .map(|f| WFrame::from_xs(&f))
                        .map_err(|e| e.to_string()),
                    Err(e) => Err(e),
                };
                let t2 = t0.elapsed().as_micros() as u64;
                appends.push((t1, t2, res));
                if let Some(lag) = ws.remove_lag {
                    let n = appends.len();
                    if n > lag as usize {
                        if let (_, _, Ok(old)) = &appends[n - 1 - lag as usize] {
                            if old.ttl != Some(WTtl::Ephemeral) {
                                if let Ok(id) = old.id.parse::<Scru128Id>() {
                                    if store.remove(&id).is_ok() {
                                        removed.push(old.id.clone());
                                    }
                                }
                            }
                        }
                    }
                }
            }
            WriterResult { appends, removed }
        }));
    }
    let writers: Vec<WriterResult> = wthreads
        .into_iter()
        .map(|t| t.join().unwrap_or(WriterResult { appends: vec![], removed: vec![] }))
        .collect();
    let writers_done_at_us = now_us();
    writers_done.store(true, Ordering::SeqCst);
    for t in fthreads {
        let _ = t.join();
    }
    let pollers: Vec<PollResult> = pthreads
        .into_iter()
        .map(|t| t.join().unwrap_or(PollResult { polls: vec![] }))
        .collect();

    // wait for the followers: until each has `expect_min` frames (or is closed), at most
    // max_wait_ms; then until nothing new has arrived for settle_ms
    let deadline = Instant::now() + Duration::from_millis(spec.max_wait_ms as u64);
    loop {
        let mut ok = true;
        for (k, sh) in fshared.iter().enumerate() {
            let want = spec.expect_min.get(k).cloned().unwrap_or(0) as usize;
            let have = sh.items.lock().unwrap().len();
            if have < want && !sh.closed.load(Ordering::SeqCst) {
                ok = false;
            }
        }
        if ok || Instant::now() >= deadline {
            break;
        }
        std::thread::sleep(Duration::from_millis(1));
    }
    if spec.settle_ms > 0 {
        let quiet = Duration::from_millis(spec.settle_ms as u64);
        let hard = Instant::now() + Duration::from_secs(5);
        let mut last_counts: Vec<usize> = fshared.iter().map(|sh| sh.items.lock().unwrap().len()).collect();
        let mut since = Instant::now();
        while since.elapsed() < quiet && Instant::now() < hard {
            std::thread::sleep(Duration::from_millis(1));
            let counts: Vec<usize> = fshared.iter().map(|sh| sh.items.lock().unwrap().len()).collect();
            if counts != last_counts {
                last_counts = counts;
                since = Instant::now();
            }
        }
    }
    let final_all: Vec<WFrame> = ex
        .store
        .read_sync(None, None, None)
        .map(|f| WFrame::from_xs(&f))
        .collect();
    let followers: Vec<FollowResult> = fshared
        .iter()
        .map(|sh| FollowResult {
            called_at_us: *sh.called_at.lock().unwrap(),
            subscribed_at_us: *sh.subscribed_at.lock().unwrap(),
            items: sh.items.lock().unwrap().clone(),
            closed: sh.closed.load(Ordering::SeqCst),
            closed_at_us: *sh.closed_at.lock().unwrap(),
        })
        .collect();
    // the followers stay alive (ScenarioPeek); they are stopped when the next scenario starts
    ex.scenario_followers = fshared.clone();
    ex.scenario_stop = Some(stop.clone());
    let (events, hold_timeouts) = {
        let mut st = d.state.lock().unwrap();
        st.rules.clear();
        st.logging = false;
        (std::mem::take(&mut st.log), st.hold_timeouts)
    };
    let res = ScenarioResult {
        writers,
        followers,
        pollers,
        final_all,
        events,
        hold_timeouts,
        writers_done_at_us,
        ended_at_us: now_us(),
    };
    json!({ "ok": serde_json::to_value(res).unwrap() })
}

pub fn peek(ex: &crate::exec::Executor) -> serde_json::Value {
    let followers: Vec<FollowResult> = ex
        .scenario_followers
        .iter()
        .map(|sh| FollowResult {
            called_at_us: *sh.called_at.lock().unwrap(),
            subscribed_at_us: *sh.subscribed_at.lock().unwrap(),
            items: sh.items.lock().unwrap().clone(),
            closed: sh.closed.load(Ordering::SeqCst),
            closed_at_us: *sh.closed_at.lock().unwrap(),
        })
        .collect();
    json!({ "ok": serde_json::to_value(followers).unwrap() })
}
