//! The executor: a child process that owns one real `xs::store::Store` (and,
//! on request, the HTTP API and the nu serve loops) and executes commands
//! received as JSON lines on stdin. One response line per command.
//!
//! The driver kills this process to model restart / crash; nothing in here
//! contains an oracle.

use std::collections::HashMap;
use std::io::{BufRead, Write};
use std::panic::{catch_unwind, AssertUnwindSafe};
use std::path::PathBuf;
use std::sync::atomic::{AtomicBool, Ordering};
use std::sync::{Arc, Mutex};
use std::time::{Duration, Instant};

use scru128::Scru128Id;
use serde::{Deserialize, Serialize};
use serde_json::json;

use xs::store::Store;

use crate::wire::*;

#[derive(Debug, Serialize, Deserialize, Clone)]
#[serde(tag = "kind")]
pub enum ClientOp {
    Append { spec: FrameSpec, content: Option<String> },
    Import { line: String },
    Remove { id: String },
    Get { id: String },
    Cat { opts: ROpts, sse: bool },
    CasPost { content: String },
    Version,
}

#[derive(Debug, Serialize, Deserialize, Clone)]
#[serde(tag = "op")]
pub enum Cmd {
    Ping,
    Append {
        spec: FrameSpec,
        /// base64 content to put into CAS first (its hash goes into the frame)
        content: Option<String>,
    },
    Import {
        spec: FrameSpec,
    },
    Remove {
        #[serde(with = "id_ser")]
        id: u128,
    },
    Get {
        #[serde(with = "id_ser")]
        id: u128,
    },
    Head {
        topic: String,
        #[serde(with = "id_ser")]
        ctx: u128,
    },
    ReadSync {
        #[serde(with = "opt_id_ser")]
        last_id: Option<u128>,
        limit: Option<usize>,
        #[serde(with = "opt_id_ser")]
        ctx: Option<u128>,
    },
    /// `Store::read` drained until the channel closes (follow must be off)
    Read {
        opts: ROpts,
    },
    Gc,
    Clock {
        ms: Option<u64>,
    },
    CasInsert {
        content: String,
        /// "async" | "sync" | "writer" | "writer_sync"
        mode: String,
    },
    CasRead {
        hash: String,
        sync: bool,
    },
    FollowStart {
        opts: ROpts,
        /// read the content of every hashed frame the moment it is received
        cas_probe: bool,
        paused: bool,
    },
    FollowPause {
        h: u32,
        paused: bool,
    },
    /// one operation through the `xs::client` library against this executor's own API socket
    Client {
        call: ClientOp,
    },
    FollowPoll {
        h: u32,
    },
    FollowStop {
        h: u32,
    },
    ServeApi,
    ServeNu {
        handlers: bool,
        generators: bool,
        commands: bool,
    },
    Panics,
    /// arm the LD_PRELOAD crash shim: kill at the `at`-th store-directory event from now
    CrashArm {
        at: i64,
        before: bool,
        power: bool,
        torn_q: u8,
    },
    /// number of store-directory events the shim has seen (null without the shim)
    CrashCount,
    /// persistent schedule rules: (sync-point label, delay in us) for every occurrence
    SetDelays {
        delays: Vec<(String, u64)>,
    },
    Scenario {
        spec: crate::director::ScenarioSpec,
    },
    /// current state of the followers of the last scenario (they keep running)
    ScenarioPeek,
}

#[derive(Debug, Serialize, Deserialize, Clone)]
pub struct FollowItem {
    pub frame: WFrame,
    /// microseconds since executor start
    pub t_us: u64,
    /// Some(true/false) when cas_probe was on and the frame has a hash
    pub cas_ok: Option<bool>,
}

#[derive(Default)]
struct FollowState {
    items: Vec<FollowItem>,
    closed: bool,
}

struct Follower {
    state: Arc<Mutex<FollowState>>,
    paused: Arc<AtomicBool>,
    task: tokio::task::JoinHandle<()>,
}

pub static PANICS: Mutex<Vec<String>> = Mutex::new(Vec::new());

fn install_panic_hook() {
    let default = std::panic::take_hook();
    std::panic::set_hook(Box::new(move |info| {
        let thread = std::thread::current();
        let msg = format!(
            "thread '{}': {}",
            thread.name().unwrap_or("<unnamed>"),
            info
        );
        let short: String = msg.chars().take(600).collect();
        PANICS.lock().unwrap().push(short);
        if std::env::var_os("XSV_QUIET_PANICS").is_none() {
            default(info);
        }
    }));
}

pub fn seed_small_memtable(path: &std::path::Path, bytes: u32) {
    let fj = path.join("fjall");
    if fj.exists() {
        return;
    }
    let ks = fjall::Config::new(&fj).open().expect("seed keyspace");
    for name in ["stream", "idx_topic", "idx_context"] {
        ks.open_partition(
            name,
            fjall::PartitionCreateOptions::default().max_memtable_size(bytes),
        )
        .expect("seed partition");
    }
    ks.persist(fjall::PersistMode::SyncAll).expect("seed persist");
    drop(ks);
}

pub struct Executor {
    pub store: Store,
    pub rt: tokio::runtime::Runtime,
    pub t0: Instant,
    followers: HashMap<u32, Follower>,
    next_h: u32,
    engine: Option<xs::nu::Engine>,
    pub scenario_followers: Vec<Arc<crate::director::FollowShared>>,
    pub scenario_stop: Option<Arc<AtomicBool>>,
}

fn ok(v: serde_json::Value) -> serde_json::Value {
    json!({ "ok": v })
}
fn err(e: impl std::fmt::Display) -> serde_json::Value {
    json!({ "err": e.to_string() })
}

fn frames_json(frames: &[xs::store::Frame]) -> serde_json::Value {
    serde_json::to_value(frames.iter().map(WFrame::from_xs).collect::<Vec<_>>()).unwrap()
}

impl Executor {
    fn engine(&mut self) -> xs::nu::Engine {
        if self.engine.is_none() {
            self.engine = Some(xs::nu::Engine::new().expect("nu engine"));
        }
        self.engine.clone().unwrap()
    }

    fn handle(&mut self, cmd: Cmd) -> serde_json::Value {
        match cmd {
            Cmd::Ping => ok(json!("pong")),
            Cmd::Append { spec, content } => {
                let mut frame = match spec.to_xs() {
                    Ok(f) => f,
                    Err(e) => return err(e),
                };
                if let Some(c) = content {
                    match self.store.cas_insert_sync(unb64(&c)) {
                        Ok(h) => frame.hash = Some(h),
                        Err(e) => return err(format!("cas: {e}")),
                    }
                }
                match self.store.append(frame) {
                    Ok(f) => ok(serde_json::to_value(WFrame::from_xs(&f)).unwrap()),
                    Err(e) => err(e),
                }
            }
            Cmd::Import { spec } => {
                let frame = match spec.to_xs() {
                    Ok(f) => f,
                    Err(e) => return err(e),
                };
                match self.store.insert_frame(&frame) {
                    Ok(()) => ok(json!(null)),
                    Err(e) => err(e),
                }
            }
            Cmd::Remove { id } => match self.store.remove(&Scru128Id::from(id)) {
                Ok(()) => ok(json!(null)),
                Err(e) => err(e),
            },
            Cmd::Get { id } => {
                let f = self.store.get(&Scru128Id::from(id));
                ok(serde_json::to_value(f.as_ref().map(WFrame::from_xs)).unwrap())
            }
            Cmd::Head { topic, ctx } => {
                let f = self.store.head(&topic, Scru128Id::from(ctx));
                ok(serde_json::to_value(f.as_ref().map(WFrame::from_xs)).unwrap())
            }
            Cmd::ReadSync {
                last_id,
                limit,
                ctx,
            } => {
                let last = last_id.map(Scru128Id::from);
                let frames: Vec<_> = self
                    .store
                    .read_sync(last.as_ref(), limit, ctx.map(Scru128Id::from))
                    .collect();
                ok(frames_json(&frames))
            }
            Cmd::Read { opts } => {
                if opts.follow.is_some() {
                    return err("Read is for non-following reads; use FollowStart");
                }
                let store = self.store.clone();
                let res = self.rt.block_on(async move {
                    let mut rx = store.read(opts.to_xs()).await;
                    let mut out = Vec::new();
                    loop {
                        match tokio::time::timeout(Duration::from_secs(60), rx.recv()).await {
                            Ok(Some(f)) => out.push(f),
                            Ok(None) => return Ok(out),
                            Err(_) => return Err("timeout draining non-follow read"),
                        }
                    }
                });
                match res {
                    Ok(frames) => ok(frames_json(&frames)),
                    Err(e) => err(e),
                }
            }
            Cmd::Gc => {
                let store = self.store.clone();
                self.rt.block_on(async move { store.wait_for_gc().await });
                ok(json!(null))
            }
            Cmd::Clock { ms } => {
                xs::verif::set_now_ms(ms);
                ok(json!(null))
            }
            Cmd::CasInsert { content, mode } => {
                let bytes = unb64(&content);
                let store = self.store.clone();
                let res: Result<ssri::Integrity, String> = match mode.as_str() {
                    "sync" => store.cas_insert_sync(&bytes).map_err(|e| e.to_string()),
                    "async" => self
                        .rt
                        .block_on(async { store.cas_insert(&bytes).await })
                        .map_err(|e| e.to_string()),
                    "writer" => self.rt.block_on(async {
                        use tokio::io::AsyncWriteExt;
                        let mut w = store.cas_writer().await.map_err(|e| e.to_string())?;
                        for chunk in bytes.chunks(4096) {
                            w.write_all(chunk).await.map_err(|e| e.to_string())?;
                        }
                        w.commit().await.map_err(|e| e.to_string())
                    }),
                    "writer_sync" => (|| {
                        let mut w = store.cas_writer_sync().map_err(|e| e.to_string())?;
                        for chunk in bytes.chunks(4096) {
                            w.write_all(chunk).map_err(|e| e.to_string())?;
                        }
                        w.commit().map_err(|e| e.to_string())
                    })(),
                    _ => Err("bad mode".into()),
                };
                match res {
                    Ok(h) => ok(json!(h.to_string())),
                    Err(e) => err(e),
                }
            }
            Cmd::CasRead { hash, sync } => {
                let h: ssri::Integrity = match hash.parse() {
                    Ok(h) => h,
                    Err(e) => return err(format!("parse: {e}")),
                };
                let store = self.store.clone();
                let res = if sync {
                    store.cas_read_sync(&h).map_err(|e| e.to_string())
                } else {
                    self.rt
                        .block_on(async { store.cas_read(&h).await })
                        .map_err(|e| e.to_string())
                };
                match res {
                    Ok(b) => ok(json!(b64(&b))),
                    Err(e) => err(e),
                }
            }
            Cmd::FollowStart {
                opts,
                cas_probe,
                paused,
            } => {
                let store = self.store.clone();
                let state = Arc::new(Mutex::new(FollowState::default()));
                let paused = Arc::new(AtomicBool::new(paused));
                let t0 = self.t0;
                let st = state.clone();
                let pz = paused.clone();
                let xopts = opts.to_xs();
                let mut rx = self.rt.block_on(async { store.read(xopts).await });
                let task = self.rt.spawn(async move {
                    loop {
                        while pz.load(Ordering::SeqCst) {
                            tokio::time::sleep(Duration::from_millis(1)).await;
                        }
                        match rx.recv().await {
                            Some(f) => {
                                let cas_ok = if cas_probe {
                                    match &f.hash {
                                        Some(h) => Some(store.cas_read(h).await.is_ok()),
                                        None => None,
                                    }
                                } else {
                                    None
                                };
                                let item = FollowItem {
                                    frame: WFrame::from_xs(&f),
                                    t_us: t0.elapsed().as_micros() as u64,
                                    cas_ok,
                                };
                                st.lock().unwrap().items.push(item);
                            }
                            None => {
                                st.lock().unwrap().closed = true;
                                return;
                            }
                        }
                    }
                });
                let h = self.next_h;
                self.next_h += 1;
                self.followers.insert(
                    h,
                    Follower {
                        state,
                        paused,
                        task,
                    },
                );
                ok(json!(h))
            }
            Cmd::FollowPause { h, paused } => match self.followers.get(&h) {
                Some(f) => {
                    f.paused.store(paused, Ordering::SeqCst);
                    ok(json!(null))
                }
                None => err("no such follower"),
            },
            Cmd::FollowPoll { h } => match self.followers.get(&h) {
                Some(f) => {
                    let st = f.state.lock().unwrap();
                    ok(json!({
                        "items": serde_json::to_value(&st.items).unwrap(),
                        "closed": st.closed,
                        "now_us": self.t0.elapsed().as_micros() as u64,
                    }))
                }
                None => err("no such follower"),
            },
            Cmd::FollowStop { h } => match self.followers.remove(&h) {
                Some(f) => {
                    f.task.abort();
                    ok(json!(null))
                }
                None => err("no such follower"),
            },
            Cmd::Client { call: op } => {
                use base64::Engine as _;
                let b64e = |b: &[u8]| base64::engine::general_purpose::STANDARD.encode(b);
                let b64d = |s: &str| base64::engine::general_purpose::STANDARD.decode(s).unwrap_or_default();
                let addr = self.store.path.to_string_lossy().to_string();
                let res: Result<Vec<u8>, String> = self.rt.block_on(async move {
                    let to = Duration::from_secs(30);
                    let r = tokio::time::timeout(to, async {
                        match op {
                            ClientOp::Append { spec, content } => {
                                let meta = spec.meta.as_ref().map(|m| m.to_json()).filter(|m| !m.is_null());
                                let ttl = spec.ttl.as_ref().map(|t| t.to_xs());
                                let ctx = if spec.ctx == 0 { None } else { Some(scru128::Scru128Id::from(spec.ctx).to_string()) };
                                let data = content.map(|c| b64d(&c)).unwrap_or_default();
                                xs::client::append(&addr, &spec.topic, std::io::Cursor::new(data), meta.as_ref(), ttl, ctx.as_deref())
                                    .await
                                    .map(|b| b.to_vec())
                                    .map_err(|e| e.to_string())
                            }
                            ClientOp::Import { line } => xs::client::import(&addr, std::io::Cursor::new(line.into_bytes()))
                                .await
                                .map(|b| b.to_vec())
                                .map_err(|e| e.to_string()),
                            ClientOp::Remove { id } => xs::client::remove(&addr, &id).await.map(|_| Vec::new()).map_err(|e| e.to_string()),
                            ClientOp::Get { id } => xs::client::get(&addr, &id).await.map(|b| b.to_vec()).map_err(|e| e.to_string()),
                            ClientOp::Cat { opts, sse } => match xs::client::cat(&addr, opts.to_xs(), sse).await {
                                Ok(mut rx) => {
                                    let mut out = Vec::new();
                                    while let Some(b) = rx.recv().await {
                                        out.extend_from_slice(&b);
                                    }
                                    Ok(out)
                                }
                                Err(e) => Err(e.to_string()),
                            },
                            ClientOp::CasPost { content } => xs::client::cas_post(&addr, std::io::Cursor::new(b64d(&content)))
                                .await
                                .map(|b| b.to_vec())
                                .map_err(|e| e.to_string()),
                            ClientOp::Version => xs::client::version(&addr).await.map(|b| b.to_vec()).map_err(|e| e.to_string()),
                        }
                    })
                    .await;
                    match r {
                        Ok(x) => x,
                        Err(_) => Err("client call timed out (30 s)".to_string()),
                    }
                });
                match res {
                    Ok(body) => ok(json!({"body": b64e(&body)})),
                    Err(e) => ok(json!({"error": e})),
                }
            }
            Cmd::ServeApi => {
                let store = self.store.clone();
                let engine = self.engine();
                let sock = store.path.join("sock");
                self.rt.spawn(async move {
                    if let Err(e) = xs::api::serve(store, engine, None).await {
                        eprintln!("api::serve ended: {e}");
                    }
                });
                let deadline = Instant::now() + Duration::from_secs(10);
                loop {
                    if std::os::unix::net::UnixStream::connect(&sock).is_ok() {
                        break;
                    }
                    if Instant::now() > deadline {
                        return err("api socket did not come up");
                    }
                    std::thread::sleep(Duration::from_millis(2));
                }
                ok(json!(sock.to_string_lossy()))
            }
            Cmd::ServeNu {
                handlers,
                generators,
                commands,
            } => {
                let engine = self.engine();
                if generators {
                    let (s, e) = (self.store.clone(), engine.clone());
                    self.rt.spawn(async move {
                        let _ = xs::generators::serve(s, e).await;
                    });
                }
                if handlers {
                    let (s, e) = (self.store.clone(), engine.clone());
                    self.rt.spawn(async move {
                        let _ = xs::handlers::serve(s, e).await;
                    });
                }
                if commands {
                    let (s, e) = (self.store.clone(), engine.clone());
                    self.rt.spawn(async move {
                        let _ = xs::commands::serve(s, e).await;
                    });
                }
                ok(json!(null))
            }
            Cmd::Panics => ok(json!(PANICS.lock().unwrap().clone())),
            Cmd::CrashArm {
                at,
                before,
                power,
                torn_q,
            } => unsafe {
                let sym = libc::dlsym(libc::RTLD_DEFAULT, c"xsv_arm".as_ptr());
                if sym.is_null() {
                    return err("crash shim not loaded");
                }
                let f: extern "C" fn(libc::c_long, libc::c_int, libc::c_int, libc::c_int) =
                    std::mem::transmute(sym);
                f(at as libc::c_long, before as i32, power as i32, torn_q as i32);
                ok(json!(null))
            },
            Cmd::CrashCount => unsafe {
                let sym = libc::dlsym(libc::RTLD_DEFAULT, c"xsv_count".as_ptr());
                if sym.is_null() {
                    return ok(json!(null));
                }
                let f: extern "C" fn() -> libc::c_long = std::mem::transmute(sym);
                ok(json!(f() as i64))
            },
            Cmd::SetDelays { delays } => {
                crate::director::set_delays(delays);
                ok(json!(null))
            }
            Cmd::Scenario { spec } => crate::director::run_scenario(self, spec),
            Cmd::ScenarioPeek => crate::director::peek(self),
        }
    }
}

pub fn main_exec(args: &[String]) -> i32 {
    install_panic_hook();
    let path = PathBuf::from(args.first().expect("exec <store path>"));
    let mut small = None;
    let mut i = 1;
    while i < args.len() {
        if args[i] == "--small-memtable" {
            small = Some(
                args.get(i + 1)
                    .and_then(|s| s.parse::<u32>().ok())
                    .unwrap_or(16 * 1024),
            );
            i += 1;
        }
        i += 1;
    }
    if let Some(ms) = std::env::var("XSV_CLOCK").ok().and_then(|s| s.parse::<u64>().ok()) {
        // the virtual clock must be in place before Store::new scans the zero context
        xs::verif::set_now_ms(Some(ms));
    }
    if let Some(bytes) = small {
        seed_small_memtable(&path, bytes);
    }
    let rt = tokio::runtime::Builder::new_multi_thread()
        .worker_threads(4)
        .enable_all()
        .build()
        .expect("runtime");
    let stdout = std::io::stdout();
    let opened = catch_unwind(AssertUnwindSafe(|| Store::new(path.clone())));
    let store = match opened {
        Ok(s) => s,
        Err(_) => {
            let p = PANICS.lock().unwrap().clone();
            let mut o = stdout.lock();
            let _ = writeln!(o, "{}", json!({"ready": false, "panic": p}));
            let _ = o.flush();
            return 3;
        }
    };
    {
        let mut o = stdout.lock();
        let _ = writeln!(o, "{}", json!({"ready": true}));
        let _ = o.flush();
    }
    let mut ex = Executor {
        store,
        rt,
        t0: Instant::now(),
        followers: HashMap::new(),
        next_h: 1,
        engine: None,
        scenario_followers: Vec::new(),
        scenario_stop: None,
    };
    let stdin = std::io::stdin();
    for line in stdin.lock().lines() {
        let line = match line {
            Ok(l) => l,
            Err(_) => break,
        };
        if line.trim().is_empty() {
            continue;
        }
        let resp = match serde_json::from_str::<Cmd>(&line) {
            Ok(cmd) => {
                let before = PANICS.lock().unwrap().len();
                match catch_unwind(AssertUnwindSafe(|| ex.handle(cmd))) {
                    Ok(v) => v,
                    Err(_) => {
                        let p = PANICS.lock().unwrap();
                        let msg = p.get(before..).map(|s| s.join(" | ")).unwrap_or_default();
                        json!({ "panic": msg })
                    }
                }
            }
            Err(e) => json!({"err": format!("bad command: {e}")}),
        };
        let mut o = stdout.lock();
        if writeln!(o, "{}", resp).is_err() || o.flush().is_err() {
            break;
        }
    }
    // the driver closed stdin: exit without running destructors (a Store is never
    // dropped cleanly anyway; see DESIGN 3.1)
    unsafe { libc::_exit(0) }
}
