//! Shared proptest strategies (DESIGN 6.1).

use proptest::prelude::*;
use proptest::strategy::BoxedStrategy;

use crate::wire::*;

/// Topics built around the `ctx || topic || 0x00 || id` key layout and the
/// HTTP route table.
pub const TOPIC_POOL: &[&str] = &[
    "",
    "a",
    "ab",
    "abc",
    "a\u{1}",
    "a\u{1}b",
    "a\u{7f}",
    "aÿ",
    "a\u{10FFFF}",
    "é",
    "日本",
    "a.b",
    "a.b.c",
    "b",
    "head/x",
    "cas",
    "import",
    "version",
    "03d4sq5pnxqgzj0xgqm4bwh0y",
    "x.register",
    "x.out",
    "x.spawn",
    "x.define",
    "xs.threshold",
    "xs.start",
];

pub const PREFIX_FAMILY: &[&str] = &["", "a", "ab", "abc", "a\u{1}", "aÿ", "a\u{1}b", "b"];

pub const NUL_TOPICS: &[&str] = &["\0", "a\0", "a\0b", "\0a"];

pub fn topic_general() -> BoxedStrategy<String> {
    prop_oneof![
        6 => proptest::sample::select(TOPIC_POOL).prop_map(|s| s.to_string()),
        6 => proptest::sample::select(PREFIX_FAMILY).prop_map(|s| s.to_string()),
        2 => "[a-c\u{1}ÿ.]{0,4}".prop_map(|s| s),
    ]
    .boxed()
}

pub fn topic_prefix_family() -> BoxedStrategy<String> {
    prop_oneof![
        10 => proptest::sample::select(PREFIX_FAMILY).prop_map(|s| s.to_string()),
        3 => "[ab\u{1}ÿ]{0,3}".prop_map(|s| s),
        1 => proptest::sample::select(TOPIC_POOL).prop_map(|s| s.to_string()),
    ]
    .boxed()
}

pub fn topic_nul() -> BoxedStrategy<String> {
    proptest::sample::select(NUL_TOPICS)
        .prop_map(|s| s.to_string())
        .boxed()
}

pub const TIME_NS: &[u64] = &[0, 1, 999, 1000, 1001, 60_000, 1 << 32, u64::MAX];

pub fn ttl_any() -> BoxedStrategy<Option<WTtl>> {
    prop_oneof![
        4 => Just(None),
        2 => Just(Some(WTtl::Forever)),
        2 => Just(Some(WTtl::Ephemeral)),
        4 => proptest::sample::select(TIME_NS).prop_map(|n| Some(WTtl::Time(n))),
        4 => prop_oneof![4 => 1u32..=5, 1 => Just(u32::MAX)].prop_map(|k| Some(WTtl::Head(k))),
        // not a TTL: must be refused at every boundary, the Store API included
        1 => Just(Some(WTtl::Head(0))),
    ]
    .boxed()
}

/// TTLs a stored (persistent) frame can carry (plus, rarely, `head:0`, which none can).
pub fn ttl_persistent() -> BoxedStrategy<Option<WTtl>> {
    prop_oneof![
        4 => Just(None),
        2 => Just(Some(WTtl::Forever)),
        4 => proptest::sample::select(TIME_NS).prop_map(|n| Some(WTtl::Time(n))),
        4 => prop_oneof![4 => 1u32..=5, 1 => Just(u32::MAX)].prop_map(|k| Some(WTtl::Head(k))),
        1 => Just(Some(WTtl::Head(0))),
    ]
    .boxed()
}

#[derive(Clone, Copy, Debug, PartialEq, Eq)]
pub enum MetaMode {
    /// no floats, depth <= 6 (the sub-domain every codec round-trips)
    Safe,
    /// floats by bit pattern, long decimals, depth up to 130
    Full,
}

fn meta_string() -> BoxedStrategy<String> {
    prop_oneof![
        4 => "[a-z]{0,6}",
        2 => "[ -~]{0,12}",
        2 => proptest::sample::select(vec![
            "", "\"", "\\", "\n", "\u{0}", "\u{1f}", "é", "日本", "\u{1F600}", "\u{10FFFF}", "a\u{0}b",
            "</script>", "\u{2028}",
        ]).prop_map(|s| s.to_string()),
    ]
    .boxed()
}

fn meta_key() -> BoxedStrategy<String> {
    prop_oneof![
        4 => "[a-z]{1,4}",
        2 => proptest::sample::select(vec![
            "handler_id", "frame_id", "command_id", "source_id", "", "k", "K", "a b", "é", "\u{0}",
        ]).prop_map(|s| s.to_string()),
    ]
    .boxed()
}

fn finite_f64_bits() -> BoxedStrategy<u64> {
    prop_oneof![
        6 => any::<u64>().prop_filter_map("finite", |b| {
            let f = f64::from_bits(b);
            if f.is_finite() { Some(b) } else { None }
        }),
        2 => proptest::sample::select(vec![
            0.1f64, -0.0, 1e-320, 5e-324, f64::MAX, f64::MIN, 1.7976931348623157e308, 0.30000000000000004,
            123456789.12345679, 1e21, 1e-7, 9007199254740993.0,
        ]).prop_map(|f| f.to_bits()),
        2 => (-1_000_000i64..1_000_000, 0u32..6).prop_map(|(m, e)| ((m as f64) / 10f64.powi(e as i32)).to_bits()),
    ]
    .boxed()
}

fn meta_leaf(mode: MetaMode) -> BoxedStrategy<MetaVal> {
    let mut v: Vec<(u32, BoxedStrategy<MetaVal>)> = vec![
        (1, Just(MetaVal::Null).boxed()),
        (1, any::<bool>().prop_map(MetaVal::Bool).boxed()),
        (
            3,
            prop_oneof![
                3 => (-1000i64..1000).prop_map(MetaVal::I),
                1 => proptest::sample::select(vec![i64::MIN, i64::MAX, -1, 0, 1 << 53, (1 << 53) + 1])
                    .prop_map(MetaVal::I),
                1 => proptest::sample::select(vec![u64::MAX, i64::MAX as u64 + 1, 1 << 63])
                    .prop_map(MetaVal::U),
            ]
            .boxed(),
        ),
        (3, meta_string().prop_map(MetaVal::S).boxed()),
    ];
    if mode == MetaMode::Full {
        v.push((3, finite_f64_bits().prop_map(MetaVal::F).boxed()));
    }
    proptest::strategy::Union::new_weighted(v).boxed()
}

pub fn meta_value(mode: MetaMode) -> BoxedStrategy<MetaVal> {
    let leaf = meta_leaf(mode);
    let tree = leaf.prop_recursive(4, 24, 4, |inner| {
        prop_oneof![
            proptest::collection::vec(inner.clone(), 0..4).prop_map(MetaVal::A),
            proptest::collection::vec((meta_key(), inner), 0..4).prop_map(|kv| {
                // a JSON object cannot hold the same key twice; keep the last
                let mut out: Vec<(String, MetaVal)> = Vec::new();
                for (k, v) in kv {
                    out.retain(|(k2, _)| *k2 != k);
                    out.push((k, v));
                }
                MetaVal::O(out)
            }),
        ]
    });
    match mode {
        MetaMode::Safe => tree.boxed(),
        MetaMode::Full => prop_oneof![
            8 => tree.clone(),
            2 => (prop_oneof![3 => 100u32..=124, 6 => 125u32..=129, 1 => 0u32..100], any::<bool>(), tree)
                .prop_map(|(d, arr, inner)| MetaVal::Nest(d, arr, Box::new(inner))),
        ]
        .boxed(),
    }
}

/// Meta as the public entry points take it: an object at top level (nu
/// `--meta` is a record; xs-meta is conventionally an object) or, rarely, any
/// JSON value.
pub fn meta_opt(mode: MetaMode) -> BoxedStrategy<Option<MetaVal>> {
    prop_oneof![
        5 => Just(None),
        4 => proptest::collection::vec((meta_key(), meta_value(mode)), 0..4).prop_map(|kv| {
            let mut out: Vec<(String, MetaVal)> = Vec::new();
            for (k, v) in kv {
                out.retain(|(k2, _)| *k2 != k);
                out.push((k, v));
            }
            Some(MetaVal::O(out))
        }),
        1 => meta_value(mode).prop_map(Some),
        // larger than hyper's default header-buffer watermarks would be if they were lowered
        1 => prop_oneof![Just(17_000u32), Just(24_000u32), Just(60_000u32)].prop_map(|n| Some(MetaVal::O(vec![("big".into(), MetaVal::BigStr(n))]))),
    ]
    .boxed()
}

/// Content sizes around the buffers in play (8 KiB journal/IO buffers, HTTP
/// chunking).
pub fn content_any() -> BoxedStrategy<Content> {
    prop_oneof![
        2 => Just(Content::Bytes(Vec::new())),
        3 => proptest::collection::vec(any::<u8>(), 1..=1).prop_map(Content::Bytes),
        6 => proptest::collection::vec(any::<u8>(), 1..48).prop_map(Content::Bytes),
        3 => "[ -~]{1,40}".prop_map(|s| Content::Bytes(s.into_bytes())),
        2 => proptest::sample::select(vec![
            vec![0xff, 0xfe, 0x00, 0x80],
            vec![0xc3, 0x28],
            b"\xf0\x28\x8c\xbc".to_vec(),
            "日本語".as_bytes().to_vec(),
        ]).prop_map(Content::Bytes),
        2 => (proptest::sample::select(vec![8191u32, 8192, 8193, 16384, 65537]), any::<u8>())
            .prop_map(|(len, seed)| Content::Pattern { len, seed }),
        1 => (Just(300 * 1024u32), any::<u8>()).prop_map(|(len, seed)| Content::Pattern { len, seed }),
    ]
    .boxed()
}

/// Smaller contents for history cases where content is incidental.
pub fn content_small() -> BoxedStrategy<Option<Content>> {
    prop_oneof![
        6 => Just(None),
        3 => proptest::collection::vec(any::<u8>(), 1..24).prop_map(|b| Some(Content::Bytes(b))),
        // the same bytes again and again: several frames then share one content
        2 => Just(Some(Content::Bytes(b"shared".to_vec()))),
        // zero bytes: content all the same (through the Store API; an empty HTTP body means none)
        1 => Just(Some(Content::Bytes(Vec::new()))),
        1 => any::<u8>().prop_map(|seed| Some(Content::Pattern { len: 9000, seed })),
    ]
    .boxed()
}

/// monotone index mapping (shrinks toward 0 without stalling)
pub fn pick(sel: u16, len: usize) -> Option<usize> {
    if len == 0 {
        None
    } else {
        Some(((sel as usize) * len) >> 16)
    }
}

/// Topics made of URL-unreserved characters (the HTTP API does not percent-decode
/// paths), still built around prefix families and the route table.
pub fn topic_http_safe() -> BoxedStrategy<String> {
    prop_oneof![
        8 => proptest::sample::select(vec![
            "", "a", "ab", "abc", "a.b", "a.b.c", "b", "a-", "a~", "a_", "version", "head/x", "head",
            "03d4sq5pnxqgzj0xgqm4bwh0y", "x.register", "x.out", "casx", "imports",
            // hierarchical topics, also with a trailing slash next to the same name without it
            "a/", "a/b", "ab/", "a//", "a.b/",
            // an ordinary, stored frame whose topic is that of a synthetic marker
            "xs.pulse",
        ]).prop_map(|s| s.to_string()),
        2 => "[a-c.~_-]{0,4}".prop_map(|s| s),
    ]
    .boxed()
}
