//! History engine shared by C01, C05, C07, C08, C09 (and the source stores of
//! C20): generated operation sequences interpreted against a real store in an
//! executor process and against the reference model, with the model's oracle
//! evaluated after every step and a full cross-path observation at settled
//! points (DESIGN 5, 6.2).

use std::collections::{BTreeMap, BTreeSet};
use std::time::{Duration, Instant};

use proptest::prelude::*;
use proptest::strategy::BoxedStrategy;
use serde::{Deserialize, Serialize};

use crate::client::*;
use crate::gen::*;
use crate::model::*;
use crate::runner::{hash64, CaseInfo, INFRA};
use crate::wire::*;

#[derive(Clone, Copy, Debug, PartialEq, Eq, Serialize, Deserialize)]
pub enum Layout {
    Plain,
    /// partitions pre-created with tiny memtables: flushes, journal rotation and
    /// compaction happen within a few dozen frames
    SmallMem,
}

#[derive(Clone, Debug, PartialEq, Serialize, Deserialize)]
pub enum CtxSel {
    Zero,
    /// k-th context registered so far (zero context if none)
    Reg(u8),
    /// an id that was never registered
    Bogus(u8),
    /// the id of some stored frame that is not a registration
    FrameId(u16),
    /// numeric neighbour (+1) of the k-th registered context
    Adjacent(u8),
}

#[derive(Clone, Debug, PartialEq, Serialize, Deserialize)]
pub enum IdSel {
    /// some id accepted earlier (stored or since removed)
    Known(u16),
    /// neighbour of a known id that was never issued
    Near(u16, bool),
    Zero,
    Max,
}

#[derive(Clone, Copy, Debug, PartialEq, Eq, Serialize, Deserialize)]
pub enum ReadPath {
    Sync,
    Stream,
    /// `GET /` rendered as NDJSON (falls back to Sync when the case does not run the API)
    HttpNd,
    /// `GET /` with `Accept: text/event-stream`
    HttpSse,
}

/// How the case's operations reach the store.
#[derive(Clone, Copy, Debug, PartialEq, Eq, Serialize, Deserialize, Default)]
pub enum Access {
    /// `Store` methods through the executor's control channel
    #[default]
    Api,
    /// the HTTP routes of `api::serve` over the store's unix socket
    Http,
}

#[derive(Clone, Copy, Debug, PartialEq, Eq, Serialize, Deserialize)]
pub enum PosSel {
    FarPast(u8),
    FarFuture(u8),
    /// right after the k-th known id
    After(u16),
    /// right before the k-th known id
    Before(u16),
    /// the all-zero id (the smallest there is), if it is still free
    IdZero,
    /// the all-ones id (the greatest there is), if it is still free
    IdMax,
}

#[derive(Clone, Debug, PartialEq, Serialize, Deserialize)]
pub enum ImportOp {
    Fresh {
        topic: String,
        ctx: CtxSel,
        ttl: Option<WTtl>,
        meta: Option<MetaVal>,
        hash: bool,
        pos: PosSel,
    },
    /// import an existing frame again, unchanged
    Again(u16),
    /// import a removed frame back
    Back(u16),
    /// import a frame with the id, topic and context of a stored frame but other meta / ttl /
    /// hash: the stored frame is replaced (no index key changes)
    Amend {
        target: u16,
        meta: Option<MetaVal>,
        ttl: Option<WTtl>,
        hash: bool,
    },
    /// import a frame under the id of a stored (non-registration) frame with another topic
    /// and/or another context: the stored frame is replaced, so it leaves its old topic and its
    /// old context
    Move {
        target: u16,
        topic: Option<String>,
        ctx: Option<u8>,
    },
    /// import a different frame under the id of a frame that is gone (the id is free)
    Reuse {
        target: u16,
        topic: String,
        ctx: CtxSel,
        ttl: Option<WTtl>,
    },
    /// a registration frame (`xs.context`); `zero` = in the zero context
    Reg { pos: PosSel, zero: bool, adjacent: Option<u8>, ttl: Option<WTtl> },
    /// a frame that cannot be stored (NUL in its topic); with `over`, under the id of a frame
    /// that is stored: the refused import must leave that frame as it is
    Nul {
        topic: String,
        pos: PosSel,
        #[serde(default)]
        over: Option<u16>,
    },
}

/// A syntactically valid HTTP request that the API must refuse with a 4xx
/// status, leaving the store unchanged (C13).
#[derive(Clone, Debug, PartialEq, Serialize, Deserialize)]
pub enum BadReq {
    BadId { delete: bool, id: String },
    BadTtl { topic: String, ttl: String },
    BadContext { topic: String, ctx: String },
    /// 0 = not base64, 1 = base64 of invalid UTF-8, 2 = base64 of invalid JSON,
    /// 3 = raw non-ASCII header bytes, 4..6 = base64 of JSON whose string literals
    /// hold invalid UTF-8
    BadMeta { topic: String, kind: u8, with_body: bool },
    BadReadQuery { q: String, sse: bool },
    BadHeadContext { topic: String, ctx: String },
    BadCasHash { h: String },
    /// a well-formed hash nobody stored: 404
    AbsentCas { seed: u8 },
    EmptyCasPost,
    BadImport { body: String },
    UnknownMethod { method: String, path: String },
    /// several requests (refused and harmless ones) on ONE keep-alive connection: each must
    /// be answered, in order, and the connection must stay usable
    KeepAlive { kinds: Vec<u8> },
    /// a harmless, complete GET request whose head bytes (after the method) are edited:
    /// (position, byte, 0 replace / 1 insert / 2 delete). Whatever it has become, it is one
    /// complete request that cannot change the store: it must be answered (2xx or 4xx)
    Mangled { template: u8, edits: Vec<(u16, u8, u8)> },
    /// a request whose head is fine and whose chunked body breaks after some bytes (a chunk size
    /// that is no hex number): route 0 = POST /<topic>, 1 = POST /cas, 2 = POST /import
    BrokenBody { route: u8 },
}

#[derive(Clone, Debug, PartialEq, Serialize, Deserialize)]
pub enum Op {
    Bad(BadReq),
    Append {
        topic: String,
        ctx: CtxSel,
        ttl: Option<WTtl>,
        meta: Option<MetaVal>,
        content: Option<Content>,
    },
    Register {
        ttl: Option<WTtl>,
    },
    RegisterIn {
        ctx: CtxSel,
    },
    Import(ImportOp),
    Remove(IdSel),
    /// move the clock to (expiry instant of the k-th time:N frame) + delta ms
    Clock {
        frame: u16,
        delta: i64,
    },
    Drain,
    Reopen,
    Read {
        path: ReadPath,
        ctx: Option<CtxSel>,
        last: Option<IdSel>,
        limit: Option<u8>,
    },
    Get(IdSel),
    Head {
        topic: String,
        ctx: CtxSel,
    },
}

impl Op {
    pub fn kind(&self) -> &'static str {
        match self {
            Op::Append { ttl, .. } => match ttl {
                Some(WTtl::Ephemeral) => "append-eph",
                Some(WTtl::Time(_)) => "append-time",
                Some(WTtl::Head(_)) => "append-head",
                _ => "append",
            },
            Op::Register { .. } => "register",
            Op::RegisterIn { .. } => "register-in",
            Op::Import(ImportOp::Fresh { .. }) => "import",
            Op::Import(ImportOp::Again(_)) => "import-again",
            Op::Import(ImportOp::Back(_)) => "import-back",
            Op::Import(ImportOp::Reuse { .. }) => "import-reuse-id",
            Op::Import(ImportOp::Amend { .. }) => "import-amend",
            Op::Import(ImportOp::Move { .. }) => "import-move",
            Op::Import(ImportOp::Reg { .. }) => "import-reg",
            Op::Import(ImportOp::Nul { .. }) => "import-nul",
            Op::Remove(_) => "remove",
            Op::Clock { .. } => "clock",
            Op::Drain => "drain",
            Op::Reopen => "reopen",
            Op::Read { path, .. } => match path {
                ReadPath::Sync => "read-sync",
                ReadPath::Stream => "read-stream",
                ReadPath::HttpNd => "read-http",
                ReadPath::HttpSse => "read-sse",
            },
            Op::Get(_) => "get",
            Op::Head { .. } => "head",
            Op::Bad(b) => match b {
                BadReq::BadId { .. } => "bad-id",
                BadReq::BadTtl { .. } => "bad-ttl",
                BadReq::BadContext { .. } => "bad-context",
                BadReq::BadMeta { .. } => "bad-meta",
                BadReq::BadReadQuery { .. } => "bad-read-query",
                BadReq::BadHeadContext { .. } => "bad-head-context",
                BadReq::BadCasHash { .. } => "bad-cas-hash",
                BadReq::AbsentCas { .. } => "absent-cas",
                BadReq::EmptyCasPost => "empty-cas-post",
                BadReq::BadImport { .. } => "bad-import",
                BadReq::UnknownMethod { .. } => "unknown-method",
                BadReq::KeepAlive { .. } => "keep-alive-sequence",
                BadReq::Mangled { .. } => "mangled-get",
                BadReq::BrokenBody { .. } => "broken-body",
            },
        }
    }
}

pub const BAD_IDS: &[&str] = &[
    "x",
    "zzzzzzzzzzzzzzzzzzzzzzzzz",
    "03d4sq5pnxqgzj0xgqm4bwh0",
    "03d4sq5pnxqgzj0xgqm4bwh0y0",
    "a.b",
    "head",
    "cas",
    "import",
    "03d4sq5pnxqgzj0xgqm4bwh0_",
    "a/b",
];
pub const BAD_TTLS: &[&str] = &[
    "head:0",
    "head:-1",
    "head:4294967296",
    "time:-5",
    "time:1.5",
    "time:18446744073709551616",
    "time:",
    "head:",
    "Time:5",
    "HEAD:1",
    "forever%20",
    "soon",
    "head:1x",
    "",
    "time:%205",
    "time:+5x",
    "head:1:2",
];
pub const BAD_CTXS: &[&str] = &[
    "x",
    "zzzzzzzzzzzzzzzzzzzzzzzzz",
    "",
    "03d4sq5pnxqgzj0xgqm4bwh0",
    "0",
];
pub const BAD_READ_QUERIES: &[&str] = &[
    "limit=abc",
    "limit=-1",
    "last-id=xyz",
    "context-id=xyz",
    "follow=maybe",
    "limit=1.5",
    "limit=99999999999999999999999",
    "last-id=",
    "context-id=zzzzzzzzzzzzzzzzzzzzzzzzz",
    "follow=-5",
    "limit=1&limit=x",
];
pub const BAD_CAS: &[&str] = &[
    "sha256-***",
    "nothash",
    "sha256-",
    "",
    "sha256",
    "-abc",
    "sha256-%%%",
];
pub const BAD_IMPORTS: &[&str] = &[
    "",
    "{",
    "[]",
    "{\"topic\":1}",
    "{\"topic\":\"t\"}",
    "{\"topic\":\"t\",\"context_id\":\"0000000000000000000000000\",\"id\":\"03d4sq5pnxqgzj0xgqm4bwh0y\",\"hash\":null,\"meta\":null,\"ttl\":\"head:0\"}",
    "{\"topic\":\"t\",\"context_id\":\"0000000000000000000000000\",\"id\":\"nope\",\"hash\":null,\"meta\":null,\"ttl\":null}",
    "{\"topic\":\"t\",\"context_id\":\"0000000000000000000000000\",\"id\":\"03d4sq5pnxqgzj0xgqm4bwh0y\",\"hash\":\"???\",\"meta\":null,\"ttl\":null}",
    "null",
    "\"frame\"",
];

#[derive(Clone, Debug, PartialEq, Serialize, Deserialize)]
pub struct HistCase {
    pub layout: Layout,
    /// contexts registered before the generated ops start
    pub n_ctx: u8,
    /// read the whole stream after every op
    pub eager: bool,
    /// keep a tail follower (all contexts) open during the case
    pub follower: bool,
    #[serde(default)]
    pub access: Access,
    /// with HTTP access: mutations, lookups and non-following reads go through the `xs::client`
    /// library (run inside the executor against its own socket) instead of the raw client
    #[serde(default)]
    pub client: bool,
    pub ops: Vec<Op>,
}

// ---------------------------------------------------------------------------
// profiles and strategies
// ---------------------------------------------------------------------------

#[derive(Clone, Copy, Debug, PartialEq, Eq)]
pub enum TopicMode {
    General,
    PrefixFamily,
    /// URL-unreserved characters only (HTTP paths are not percent-decoded)
    HttpSafe,
}

#[derive(Clone, Debug)]
pub struct Profile {
    pub name: &'static str,
    pub topics: TopicMode,
    pub meta: MetaMode,
    pub max_ops: usize,
    pub w_append: u32,
    pub w_nul: u32,
    pub w_register: u32,
    pub w_register_in: u32,
    pub w_import: u32,
    pub w_import_reg: u32,
    pub w_remove: u32,
    pub w_clock: u32,
    pub w_drain: u32,
    pub w_reopen: u32,
    pub w_read: u32,
    pub w_get: u32,
    pub w_head: u32,
    pub w_bad: u32,
    /// probability weight (0..=10) that TTL-bearing appends dominate
    pub ttl_heavy: bool,
    pub small_mem_pct: u32,
    pub bogus_ctx_pct: u32,
    pub access: Access,
}

pub fn profile(name: &str) -> Profile {
    let base = Profile {
        name: "C01",
        topics: TopicMode::General,
        meta: MetaMode::Full,
        max_ops: 40,
        w_append: 30,
        w_nul: 1,
        w_register: 3,
        w_register_in: 1,
        w_import: 6,
        w_import_reg: 1,
        w_remove: 8,
        w_clock: 5,
        w_drain: 4,
        w_reopen: 3,
        w_read: 18,
        w_get: 6,
        w_head: 4,
        w_bad: 0,
        ttl_heavy: false,
        small_mem_pct: 10,
        bogus_ctx_pct: 5,
        access: Access::Api,
    };
    match name {
        "C05" => Profile {
            name: "C05",
            topics: TopicMode::PrefixFamily,
            w_nul: 4,
            w_head: 14,
            w_get: 8,
            w_read: 8,
            w_import: 8,
            ..base
        },
        "C07" => Profile {
            name: "C07",
            w_append: 24,
            w_register: 10,
            w_register_in: 4,
            w_import_reg: 8,
            w_remove: 12,
            w_reopen: 8,
            w_read: 8,
            w_clock: 6,
            w_drain: 7,
            bogus_ctx_pct: 25,
            ..base
        },
        "C08" => Profile {
            name: "C08",
            topics: TopicMode::PrefixFamily,
            ttl_heavy: true,
            w_clock: 10,
            w_drain: 8,
            w_read: 16,
            ..base
        },
        "C09" => Profile {
            name: "C09",
            ttl_heavy: true,
            w_clock: 10,
            w_drain: 8,
            w_read: 18,
            w_get: 8,
            ..base
        },
        "C04" => Profile {
            name: "C04",
            meta: MetaMode::Safe,
            w_import_reg: 2,
            small_mem_pct: 25,
            ..base
        },
        "C12" => Profile {
            name: "C12",
            max_ops: 20,
            w_append: 30,
            w_import: 20,
            w_read: 10,
            w_get: 10,
            w_reopen: 6,
            w_remove: 3,
            w_clock: 1,
            w_head: 2,
            small_mem_pct: 5,
            ..base
        },
        "C13" => Profile {
            name: "C13",
            topics: TopicMode::HttpSafe,
            max_ops: 25,
            access: Access::Http,
            w_bad: 22,
            w_nul: 2,
            w_head: 8,
            w_get: 8,
            w_import: 8,
            w_import_reg: 2,
            bogus_ctx_pct: 12,
            small_mem_pct: 3,
            ..base
        },
        "C20" => Profile {
            name: "C20",
            max_ops: 30,
            w_read: 2,
            w_get: 1,
            w_head: 1,
            w_reopen: 1,
            w_remove: 10,
            w_register: 6,
            ..base
        },
        _ => base,
    }
}

fn ctx_sel(p: &Profile) -> BoxedStrategy<CtxSel> {
    let bogus = p.bogus_ctx_pct;
    prop_oneof![
        30 => Just(CtxSel::Zero),
        60 => (0u8..4).prop_map(CtxSel::Reg),
        bogus => (0u8..4).prop_map(CtxSel::Bogus),
        (bogus / 2).max(1) => any::<u16>().prop_map(CtxSel::FrameId),
        (bogus / 2).max(1) => (0u8..4).prop_map(CtxSel::Adjacent),
    ]
    .boxed()
}

fn id_sel() -> BoxedStrategy<IdSel> {
    prop_oneof![
        16 => any::<u16>().prop_map(IdSel::Known),
        3 => (any::<u16>(), any::<bool>()).prop_map(|(k, up)| IdSel::Near(k, up)),
        1 => Just(IdSel::Zero),
        1 => Just(IdSel::Max),
    ]
    .boxed()
}

fn pos_sel() -> BoxedStrategy<PosSel> {
    prop_oneof![
        2 => (0u8..8).prop_map(PosSel::FarPast),
        2 => (0u8..8).prop_map(PosSel::FarFuture),
        4 => any::<u16>().prop_map(PosSel::After),
        2 => any::<u16>().prop_map(PosSel::Before),
    ]
    .boxed()
}

fn topic_of(p: &Profile) -> BoxedStrategy<String> {
    match p.topics {
        TopicMode::General => topic_general(),
        TopicMode::PrefixFamily => topic_prefix_family(),
        TopicMode::HttpSafe => topic_http_safe(),
    }
}

fn ttl_of(p: &Profile) -> BoxedStrategy<Option<WTtl>> {
    if p.ttl_heavy {
        prop_oneof![
            2 => Just(None),
            1 => Just(Some(WTtl::Forever)),
            2 => Just(Some(WTtl::Ephemeral)),
            6 => proptest::sample::select(TIME_NS).prop_map(|n| Some(WTtl::Time(n))),
            6 => prop_oneof![5 => 1u32..=4, 1 => Just(u32::MAX)].prop_map(|k| Some(WTtl::Head(k))),
        ]
        .boxed()
    } else {
        ttl_any()
    }
}

pub fn op_strategy(p: &Profile) -> BoxedStrategy<Op> {
    let append = (
        topic_of(p),
        ctx_sel(p),
        ttl_of(p),
        meta_opt(p.meta),
        content_small(),
    )
        .prop_map(|(topic, ctx, ttl, meta, content)| Op::Append {
            topic,
            ctx,
            ttl,
            meta,
            content,
        });
    let nul = (topic_nul(), ctx_sel(p), ttl_any()).prop_map(|(topic, ctx, ttl)| Op::Append {
        topic,
        ctx,
        ttl,
        meta: None,
        content: None,
    });
    let register = ttl_any().prop_map(|ttl| Op::Register { ttl });
    let register_in = ctx_sel(p).prop_map(|ctx| Op::RegisterIn { ctx });
    let import = prop_oneof![
        6 => (topic_of(p), ctx_sel(p), ttl_persistent(), meta_opt(p.meta), any::<bool>(), prop_oneof![24 => pos_sel(), 1 => Just(PosSel::IdZero), 1 => Just(PosSel::IdMax)])
            .prop_map(|(topic, ctx, ttl, meta, hash, pos)| ImportOp::Fresh { topic, ctx, ttl, meta, hash, pos }),
        2 => any::<u16>().prop_map(ImportOp::Again),
        3 => any::<u16>().prop_map(ImportOp::Back),
        3 => (any::<u16>(), topic_of(p), ctx_sel(p), ttl_persistent())
            .prop_map(|(target, topic, ctx, ttl)| ImportOp::Reuse { target, topic, ctx, ttl }),
        2 => (any::<u16>(), meta_opt(p.meta), prop_oneof![2 => Just(None), 1 => Just(Some(WTtl::Forever)), 1 => Just(Some(WTtl::Time(u64::MAX)))], any::<bool>())
            .prop_map(|(target, meta, ttl, hash)| ImportOp::Amend { target, meta, ttl, hash }),
        2 => (topic_nul(), pos_sel(), proptest::option::weighted(0.5, any::<u16>())).prop_map(|(topic, pos, over)| ImportOp::Nul { topic, pos, over }),
        2 => (any::<u16>(), proptest::option::weighted(0.6, topic_of(p)), proptest::option::weighted(0.6, 0u8..5))
            .prop_map(|(target, topic, ctx)| ImportOp::Move { target, topic, ctx }),
    ]
    .prop_map(Op::Import);
    let import_reg = (
        pos_sel(),
        prop_oneof![9 => Just(true), 1 => Just(false)],
        proptest::option::weighted(0.4, 0u8..4),
        prop_oneof![
            3 => Just(None),
            2 => Just(Some(WTtl::Forever)),
            1 => Just(Some(WTtl::Head(1))),
            2 => proptest::sample::select(vec![0u64, 1000, 60_000]).prop_map(|n| Some(WTtl::Time(n))),
        ],
    )
        .prop_map(|(pos, zero, adjacent, ttl)| {
            Op::Import(ImportOp::Reg {
                pos,
                zero,
                adjacent,
                ttl,
            })
        });
    let remove = id_sel().prop_map(Op::Remove);
    let clock = (
        any::<u16>(),
        proptest::sample::select(vec![-60_000i64, -1, 0, 1, 60_000]),
    )
        .prop_map(|(frame, delta)| Op::Clock { frame, delta });
    let read = (
        if p.access == Access::Http {
            prop_oneof![
                1 => Just(ReadPath::Sync),
                1 => Just(ReadPath::Stream),
                3 => Just(ReadPath::HttpNd),
                3 => Just(ReadPath::HttpSse)
            ]
            .boxed()
        } else {
            prop_oneof![Just(ReadPath::Sync), Just(ReadPath::Stream)].boxed()
        },
        proptest::option::weighted(0.6, ctx_sel(p)),
        proptest::option::weighted(0.5, id_sel()),
        proptest::option::weighted(0.5, 0u8..12),
    )
        .prop_map(|(path, ctx, last, limit)| Op::Read {
            path,
            ctx,
            last,
            limit,
        });
    let get = id_sel().prop_map(Op::Get);
    let head = (
        prop_oneof![4 => topic_of(p), 1 => topic_nul()],
        ctx_sel(p),
    )
        .prop_map(|(topic, ctx)| Op::Head { topic, ctx });
    let weighted: Vec<(u32, BoxedStrategy<Op>)> = vec![
        (p.w_append, append.boxed()),
        (p.w_nul, nul.boxed()),
        (p.w_register, register.boxed()),
        (p.w_register_in, register_in.boxed()),
        (p.w_import, import.boxed()),
        (p.w_import_reg, import_reg.boxed()),
        (p.w_remove, remove.boxed()),
        (p.w_clock, clock.boxed()),
        (p.w_drain, Just(Op::Drain).boxed()),
        (p.w_reopen, Just(Op::Reopen).boxed()),
        (p.w_read, read.boxed()),
        (p.w_get, get.boxed()),
        (p.w_head, head.boxed()),
        (p.w_bad, bad_req(p).prop_map(Op::Bad).boxed()),
    ];
    proptest::strategy::Union::new_weighted(weighted.into_iter().filter(|(w, _)| *w > 0).collect())
        .boxed()
}

pub fn bad_req(_p: &Profile) -> BoxedStrategy<BadReq> {
    let sel = |v: &'static [&'static str]| proptest::sample::select(v).prop_map(|s| s.to_string());
    prop_oneof![
        3 => (any::<bool>(), sel(BAD_IDS)).prop_map(|(delete, id)| BadReq::BadId { delete, id }),
        3 => (topic_http_safe(), sel(BAD_TTLS)).prop_map(|(topic, ttl)| BadReq::BadTtl { topic, ttl }),
        2 => (topic_http_safe(), sel(BAD_CTXS)).prop_map(|(topic, ctx)| BadReq::BadContext { topic, ctx }),
        5 => (topic_http_safe(), 0u8..10, any::<bool>())
            .prop_map(|(topic, kind, with_body)| BadReq::BadMeta { topic, kind, with_body }),
        3 => (sel(BAD_READ_QUERIES), any::<bool>()).prop_map(|(q, sse)| BadReq::BadReadQuery { q, sse }),
        2 => (topic_http_safe(), sel(BAD_CTXS)).prop_map(|(topic, ctx)| BadReq::BadHeadContext { topic, ctx }),
        2 => sel(BAD_CAS).prop_map(|h| BadReq::BadCasHash { h }),
        2 => any::<u8>().prop_map(|seed| BadReq::AbsentCas { seed }),
        1 => Just(BadReq::EmptyCasPost),
        3 => sel(BAD_IMPORTS).prop_map(|body| BadReq::BadImport { body }),
        3 => proptest::collection::vec(0u8..8, 2..7).prop_map(|kinds| BadReq::KeepAlive { kinds }),
        6 => (0u8..8, proptest::collection::vec((any::<u16>(), any::<u8>(), 0u8..3), 1..4))
            .prop_map(|(template, edits)| BadReq::Mangled { template, edits }),
        2 => (0u8..3).prop_map(|route| BadReq::BrokenBody { route }),
        2 => (
            proptest::sample::select(vec!["PUT", "PATCH", "OPTIONS", "TRACE", "HEAD"]).prop_map(|s| s.to_string()),
            proptest::sample::select(vec!["/", "/x", "/cas", "/import", "/version", "/head/x"]).prop_map(|s| s.to_string()),
        )
            .prop_map(|(method, path)| BadReq::UnknownMethod { method, path }),
    ]
    .prop_filter("topic must not be a POST route", move |b| match b {
        BadReq::BadTtl { topic, .. } | BadReq::BadContext { topic, .. } | BadReq::BadMeta { topic, .. } => {
            crate::httpx::topic_is_url_safe(topic)
        }
        _ => true,
    })
    .boxed()
}

pub fn hist_strategy(p: &Profile) -> BoxedStrategy<HistCase> {
    let small = p.small_mem_pct;
    let access = p.access;
    (
        prop_oneof![(100 - small) => Just(Layout::Plain), small => Just(Layout::SmallMem)],
        0u8..=3,
        any::<bool>(),
        prop_oneof![3 => Just(true), 1 => Just(false)],
        proptest::collection::vec(op_strategy(p), 0..=p.max_ops),
        proptest::bool::weighted(0.3),
    )
        .prop_map(move |(layout, n_ctx, eager, follower, ops, client)| HistCase {
            layout,
            n_ctx,
            eager,
            follower,
            access,
            client: client && access == Access::Http,
            ops,
        })
        .boxed()
}

// ---------------------------------------------------------------------------
// interpreter
// ---------------------------------------------------------------------------

#[derive(Clone, Debug)]
pub struct Known {
    pub id: u128,
    pub spec: FrameSpec,
    pub removed: bool,
}

#[derive(Clone, Debug)]
pub struct Flags {
    pub had_remove: bool,
    pub had_expiry: bool,
    pub had_import: bool,
    pub had_eviction: bool,
    pub had_reopen: bool,
    pub scoped_read_after_mutation: bool,
    pub prefix_pair_with_gc: bool,
    pub reg_then_reopen_with_change: bool,
    pub expiry_seen_sync: bool,
    pub expiry_seen_stream: bool,
    pub eviction_k2: bool,
    pub deferred_drain: bool,
    pub rejected_appends: u32,
    pub nul_rejected: u32,
    pub excluded_same_id_import: u32,
    pub excluded_time_reg_import: u32,
    pub gc_removed_with_neighbour: bool,
    pub http_follower: bool,
    pub refused_import_over_stored: bool,
    pub via_client: bool,
    pub registration_amended: bool,
    pub import_moved: bool,
}

impl Default for Flags {
    fn default() -> Self {
        Flags {
            had_remove: false,
            had_expiry: false,
            had_import: false,
            had_eviction: false,
            had_reopen: false,
            scoped_read_after_mutation: false,
            prefix_pair_with_gc: false,
            reg_then_reopen_with_change: false,
            expiry_seen_sync: false,
            expiry_seen_stream: false,
            eviction_k2: false,
            deferred_drain: false,
            rejected_appends: 0,
            nul_rejected: 0,
            excluded_same_id_import: 0,
            excluded_time_reg_import: 0,
            gc_removed_with_neighbour: false,
            http_follower: false,
            refused_import_over_stored: false,
            via_client: false,
            registration_amended: false,
            import_moved: false,
        }
    }
}

pub struct Interp {
    pub dir: StoreDir,
    pub exec: Option<Exec>,
    pub opts: ExecOpts,
    pub model: Model,
    pub known: Vec<Known>,
    /// contexts ever registered (by append or import into the zero context)
    pub ctxs: Vec<u128>,
    pub ephemeral_ids: Vec<u128>,
    pub follower: Option<(u32, Vec<WFrame>)>,
    /// with HTTP access the follower is, two times out of three, a following `GET /`
    /// (NDJSON, then SSE) read incrementally by the driver instead of a Store::read
    pub http_follower: Option<crate::httpx::HttpFollower>,
    pub follower_starts: u32,
    /// HTTP operations go through `xs::client` (see HistCase::client)
    pub via_client: bool,
    /// content this engine wrote, by the hash the harness computed for it
    pub contents: BTreeMap<String, Vec<u8>>,
    /// off for power-loss images (content durability against power loss is not claimed)
    pub content_sweep: bool,
    pub want_follower: bool,
    pub flags: Flags,
    pub checks: u64,
    pub topics_used: BTreeSet<String>,
    pub reg_changed_since_reopen: bool,
    pub pending_head_append: bool,
    pub access: Access,
    pub sock: Option<std::path::PathBuf>,
    /// status of the last HTTP error response
    pub last_status: Option<u16>,
    pub known_hits: Vec<String>,
    pub http_requests: u64,
    pub http_errors_seen: u32,
    /// the mutation handed to xs that has not been acknowledged yet (crash checks)
    pub in_flight: Option<InFlight>,
}

#[derive(Clone, Debug)]
pub enum InFlight {
    Append(FrameSpec),
    Import(FrameSpec),
    Remove(u128),
}

pub fn infra(msg: impl std::fmt::Display) -> Fail {
    Fail::new(Class::Panic, format!("{INFRA} {msg}"))
}

/// map an executor error on an operation that must not fail
pub fn must<T>(what: &str, r: XResult<T>) -> Result<T, Fail> {
    match r {
        Ok(v) => Ok(v),
        Err(ExecErr::Err(e)) => Err(Fail::new(
            Class::Panic,
            format!("{what}: unexpected error: {e}"),
        )),
        Err(ExecErr::Panic(p)) => Err(Fail::new(Class::Panic, format!("{what}: xs panicked: {p}"))),
        Err(ExecErr::Died(d)) => Err(Fail::new(
            Class::Panic,
            format!("{what}: the process running xs died: {d}"),
        )),
    }
}

pub fn bogus_ctx(k: u8) -> u128 {
    // never-registered ids: small numbers and an id-shaped value
    match k % 4 {
        0 => 1,
        1 => 0xffff,
        2 => scru128::Scru128Id::from_fields(1_600_000_000_000, 7, 7, 7).to_u128(),
        // (the all-ones id is excluded: xs documents that it does not handle it)
        _ => u128::MAX - 1,
    }
}

impl Interp {
    pub fn start(layout: Layout, want_follower: bool) -> Result<Interp, Fail> {
        Self::start_with(layout, want_follower, Access::Api)
    }

    pub fn start_with(layout: Layout, want_follower: bool, access: Access) -> Result<Interp, Fail> {
        Self::start_custom(layout, want_follower, access, |_| ExecOpts {
            small_memtable: match layout {
                Layout::Plain => None,
                Layout::SmallMem => Some(8 * 1024),
            },
            env: vec![("XSV_CLOCK".into(), "0".into())],
        })
    }

    pub fn start_custom(
        _layout: Layout,
        want_follower: bool,
        access: Access,
        opts_for: impl FnOnce(&std::path::Path) -> ExecOpts,
    ) -> Result<Interp, Fail> {
        let dir = StoreDir::new();
        let opts = opts_for(&dir.path);
        let exec = Exec::spawn(&dir.path, &opts).map_err(|e| infra(format!("spawn: {e}")))?;
        let mut it = Interp {
            dir,
            exec: Some(exec),
            opts,
            model: Model::new(),
            known: Vec::new(),
            ctxs: Vec::new(),
            ephemeral_ids: Vec::new(),
            follower: None,
            http_follower: None,
            follower_starts: 0,
            via_client: false,
            contents: BTreeMap::new(),
            content_sweep: true,
            want_follower,
            flags: Flags::default(),
            checks: 0,
            topics_used: BTreeSet::new(),
            reg_changed_since_reopen: false,
            pending_head_append: false,
            access,
            sock: None,
            last_status: None,
            known_hits: Vec::new(),
            http_requests: 0,
            http_errors_seen: 0,
            in_flight: None,
        };
        it.start_api()?;
        it.start_follower()?;
        Ok(it)
    }

    /// With HTTP access: start `api::serve` and adopt the `xs.start` frame it appends.
    fn start_api(&mut self) -> Check {
        if self.access != Access::Http {
            return Ok(());
        }
        let sock = must("serve_api", self.ex().serve_api())?;
        self.sock = Some(sock);
        let all = must("read_sync", self.ex().read_sync(None, None, None))?;
        for w in all {
            if !self.model.frames.contains_key(&w.id128()) {
                if w.topic == "xs.start" && w.ctx128() == ZERO {
                    let mut spec = FrameSpec {
                        topic: w.topic.clone(),
                        ctx: ZERO,
                        id: Some(w.id128()),
                        hash: None,
                        meta: None,
                        ttl: w.ttl.clone(),
                    };
                    spec.hash = w.hash.clone();
                    self.model.adopt(&w);
                    self.known.push(Known {
                        id: w.id128(),
                        spec,
                        removed: false,
                    });
                    self.topics_used.insert(w.topic.clone());
                }
            }
        }
        Ok(())
    }

    fn http<T>(&mut self, out: crate::httpx::HOut<T>) -> Result<XResult<T>, Fail> {
        use crate::httpx::HOut;
        self.http_requests += 1;
        match out {
            HOut::Ok(v) => Ok(Ok(v)),
            HOut::Status(s, body) => {
                self.last_status = Some(s);
                self.http_errors_seen += 1;
                Ok(Err(ExecErr::Err(format!("HTTP {s}: {body}"))))
            }
            HOut::Broken(m) => Err(Fail::new(Class::Http, m)),
            HOut::Infra(m) => Err(infra(format!("http connect: {m}"))),
        }
    }

    /// One `xs::client` call, shaped like the raw client's outcomes: the library reports every
    /// non-200/204 answer as an error text that begins with the status line.
    fn client_call(&mut self, op: crate::exec::ClientOp) -> crate::httpx::HOut<Vec<u8>> {
        use crate::httpx::HOut;
        self.flags.via_client = true;
        match self.ex().client(op) {
            Ok(Ok(body)) => HOut::Ok(body),
            Ok(Err(msg)) => {
                let code: Option<u16> = msg.split_whitespace().next().and_then(|c| c.parse().ok());
                match code {
                    Some(c) if (300..600).contains(&c) => HOut::Status(c, msg),
                    _ => HOut::Broken(format!("xs::client failed without an HTTP status: {msg}")),
                }
            }
            Err(ExecErr::Died(e)) => HOut::Infra(format!("executor died: {e}")),
            Err(e) => HOut::Broken(format!("xs::client call: {e}")),
        }
    }

    fn client_frame(out: crate::httpx::HOut<Vec<u8>>, what: &str) -> crate::httpx::HOut<WFrame> {
        use crate::httpx::HOut;
        match out {
            HOut::Ok(body) => match crate::wire::parse_json_deep(&body).map_err(|e| e.to_string()).and_then(|v| wframe_from_json(&v)) {
                Ok(f) => HOut::Ok(f),
                Err(e) => HOut::Broken(format!("{what}: the client returned {:?}: {e}", String::from_utf8_lossy(&body))),
            },
            HOut::Status(s, b) => HOut::Status(s, b),
            HOut::Broken(m) => HOut::Broken(m),
            HOut::Infra(m) => HOut::Infra(m),
        }
    }

    fn use_http(&self, topic: Option<&str>) -> bool {
        self.access == Access::Http
            && self.sock.is_some()
            && topic.map(crate::httpx::topic_is_url_safe).unwrap_or(true)
    }

    /// a client error must be answered 4xx; 5xx for it is the recorded finding
    /// `http-500-for-client-error` (or a violation if that is not listed)
    fn client_error_status(&mut self, what: &str) -> Check {
        if let Some(s) = self.last_status.take() {
            if !(400..500).contains(&s) {
                // signature: the *store* refused the frame of a POST /{topic} or
                // POST /import (unusable context, xs.context outside the zero context,
                // NUL in topic, undecodable frame) and the route answered 500
                let sig = "http-500-when-store-refuses-frame";
                if s == 500 && crate::runner::known().lists(sig) {
                    self.known_hits.push(sig.to_string());
                } else {
                    return Err(Fail::new(
                        Class::Http,
                        format!("{what}: a client error was answered with status {s}, not 4xx"),
                    ));
                }
            }
        }
        Ok(())
    }

    pub fn ex(&mut self) -> &mut Exec {
        self.exec.as_mut().expect("executor running")
    }

    fn start_follower(&mut self) -> Check {
        self.http_follower = None;
        if self.want_follower && self.use_http(None) && self.follower_starts % 3 != 2 {
            let sse = self.follower_starts % 3 == 1;
            self.follower_starts += 1;
            let sock = self.sock.clone().unwrap();
            let opts = ROpts {
                follow: Some(0),
                tail: true,
                ..Default::default()
            };
            let hf = crate::httpx::follow_start(&sock, &opts, sse)
                .map_err(|e| Fail::new(Class::Http, format!("following GET /: {e}")))?;
            self.http_requests += 1;
            self.flags.http_follower = true;
            self.http_follower = Some(hf);
            self.follower = Some((u32::MAX, Vec::new()));
            return Ok(());
        }
        if self.want_follower {
            self.follower_starts += 1;
            let h = must(
                "follow_start",
                self.ex().follow_start(
                    &ROpts {
                        follow: Some(0),
                        tail: true,
                        ..Default::default()
                    },
                    false,
                    false,
                ),
            )?;
            self.follower = Some((h, Vec::new()));
        }
        Ok(())
    }

    pub fn resolve_ctx(&self, c: &CtxSel) -> u128 {
        // (the context id 2^128-1 is outside the quantifier: its range end saturates, as xs
        // documents; frame ids may be all ones, context ids are not drawn there)
        match self.resolve_ctx_raw(c) {
            u128::MAX => ZERO,
            v => v,
        }
    }

    fn resolve_ctx_raw(&self, c: &CtxSel) -> u128 {
        match c {
            CtxSel::Zero => ZERO,
            CtxSel::Reg(k) => {
                if self.ctxs.is_empty() {
                    ZERO
                } else {
                    self.ctxs[*k as usize % self.ctxs.len()]
                }
            }
            CtxSel::Bogus(k) => bogus_ctx(*k),
            CtxSel::FrameId(s) => {
                // ids that are frames but not (or no longer) usable contexts: ordinary
                // frames, registration frames stored outside the zero context,
                // removed registrations
                let non_reg: Vec<u128> = self
                    .known
                    .iter()
                    .filter(|k| self.model.usable(k.id) != Some(true))
                    .map(|k| k.id)
                    .collect();
                pick(*s, non_reg.len())
                    .map(|i| non_reg[i])
                    .unwrap_or(bogus_ctx(2))
            }
            CtxSel::Adjacent(k) => {
                if self.ctxs.is_empty() {
                    1
                } else {
                    self.ctxs[*k as usize % self.ctxs.len()].wrapping_add(1)
                }
            }
        }
    }

    pub fn resolve_id(&self, s: &IdSel) -> u128 {
        match s {
            IdSel::Known(k) => pick(*k, self.known.len())
                .map(|i| self.known[i].id)
                .unwrap_or(12345),
            IdSel::Near(k, up) => {
                let base = pick(*k, self.known.len())
                    .map(|i| self.known[i].id)
                    .unwrap_or(1 << 80);
                let mut v = if *up {
                    base.wrapping_add(1)
                } else {
                    base.wrapping_sub(1)
                };
                while self.known.iter().any(|k| k.id == v) {
                    v = if *up {
                        v.wrapping_add(1)
                    } else {
                        v.wrapping_sub(1)
                    };
                }
                v
            }
            IdSel::Zero => 0,
            IdSel::Max => u128::MAX,
        }
    }

    fn resolve_pos(&self, p: &PosSel) -> u128 {
        let taken = |v: u128| self.known.iter().any(|k| k.id == v) || self.ephemeral_ids.contains(&v);
        let mut v = match p {
            PosSel::FarPast(k) => {
                scru128::Scru128Id::from_fields(1 + *k as u64, *k as u32, 0, 0).to_u128()
            }
            PosSel::FarFuture(k) => {
                scru128::Scru128Id::from_fields((1u64 << 47) + *k as u64, 0, *k as u32, 1).to_u128()
            }
            PosSel::After(s) => pick(*s, self.known.len())
                .map(|i| self.known[i].id.wrapping_add(1))
                .unwrap_or(1 << 90),
            PosSel::Before(s) => pick(*s, self.known.len())
                .map(|i| self.known[i].id.wrapping_sub(1))
                .unwrap_or(1 << 91),
            PosSel::IdZero => {
                if !taken(0) {
                    return 0;
                }
                1 << 92
            }
            PosSel::IdMax => {
                if !taken(u128::MAX) {
                    return u128::MAX;
                }
                1 << 93
            }
        };
        while taken(v) || v == 0 {
            v = v.wrapping_add(1);
        }
        v
    }

    fn note_topic(&mut self, t: &str) {
        self.topics_used.insert(t.to_string());
    }

    pub fn do_append(&mut self, spec: FrameSpec, content: Option<Vec<u8>>) -> Result<Option<WFrame>, Fail> {
        let mut spec = spec;
        if let Some(c) = &content {
            // the hash xs must report is computed here, independently
            spec.hash = Some(sha256_integrity(c));
        }
        let via_http = self.use_http(Some(&spec.topic));
        if via_http && spec.ttl.is_none() {
            // the HTTP route turns an absent ttl parameter into `forever`
            spec.ttl = Some(WTtl::Forever);
        }
        if via_http && content.as_deref().map(|c| c.is_empty()).unwrap_or(true) {
            // an empty body means "no content" over HTTP (settled before the operation is
            // recorded as in flight: a crash must find the frame as it was really sent)
            spec.hash = None;
        }
        let expect = if via_http && spec.ttl == Some(WTtl::Head(0)) {
            // (over HTTP the query string is parsed before the topic is looked at)
            Ok(false)
        } else {
            self.model.append_expect(&spec)
        };
        let is_nul = spec.topic.as_bytes().contains(&0);
        self.in_flight = Some(InFlight::Append(spec.clone()));
        let res = if via_http {
            let sock = self.sock.clone().unwrap();
            let how = crate::httpx::AppendHow {
                chunked: content
                    .as_ref()
                    .filter(|c| c.len() % 2 == 1)
                    .map(|c| (c.len() / 3).max(1)),
                explicit_zero_ctx: spec.topic.len() % 2 == 1,
                ctx_first: spec.topic.len() % 3 == 1,
                split_at: content.as_ref().filter(|c| c.len() % 4 == 2).map(|c| c.len() / 2),
            };
            // an empty body means "no content" over HTTP
            let body = content.as_deref().filter(|c| !c.is_empty());
            if body.is_none() {
                spec.hash = None;
            }
            let out = if self.via_client {
                let op = crate::exec::ClientOp::Append {
                    spec: spec.clone(),
                    content: body.map(b64),
                };
                let o = self.client_call(op);
                Self::client_frame(o, "append")
            } else {
                crate::httpx::append(&sock, &spec, body, &how)
            };
            self.http(out)?
        } else {
            self.ex().append(&spec, content.as_deref())
        };
        if !matches!(res, Err(ExecErr::Died(_))) {
            self.in_flight = None;
        }
        self.checks += 1;
        match res {
            Ok(w) => {
                if expect == Ok(false) {
                    let class = if is_nul && self.model.usable(spec.ctx) != Some(false) && spec.topic != "xs.context" {
                        Class::NulTopic
                    } else {
                        Class::ContextRule
                    };
                    return Err(Fail::new(
                        class,
                        format!(
                            "append of topic {:?} into context {} was accepted (frame {}) but must be rejected (context usable: {:?}, NUL in topic: {})",
                            spec.topic,
                            id_str(spec.ctx),
                            w.id,
                            self.model.usable(spec.ctx),
                            is_nul
                        ),
                    ));
                }
                self.model.apply_append(&spec, &w)?;
                if let (Some(h), Some(c)) = (&spec.hash, &content) {
                    self.contents.entry(h.clone()).or_insert_with(|| c.clone());
                }
                let id = w.id128();
                if spec.ttl == Some(WTtl::Ephemeral) && spec.topic != "xs.context" {
                    self.ephemeral_ids.push(id);
                } else {
                    let mut s = spec.clone();
                    s.id = Some(id);
                    if spec.topic == "xs.context" {
                        s.ttl = Some(WTtl::Forever);
                        self.ctxs.push(id);
                        self.reg_changed_since_reopen = true;
                    }
                    self.known.push(Known {
                        id,
                        spec: s,
                        removed: false,
                    });
                    if matches!(spec.ttl, Some(WTtl::Head(_))) && spec.topic != "xs.context" {
                        self.pending_head_append = true;
                    }
                }
                self.note_topic(&spec.topic);
                if let Some((_, exp)) = self.follower.as_mut() {
                    exp.push(w.clone());
                }
                Ok(Some(w))
            }
            Err(ExecErr::Err(e)) => {
                if expect == Ok(true) {
                    return Err(Fail::new(
                        Class::ContextRule,
                        format!(
                            "append of topic {:?} into context {} was rejected ({e}) but the context is usable: its registration frame is stored in the zero context",
                            spec.topic,
                            id_str(spec.ctx)
                        ),
                    ));
                }
                self.flags.rejected_appends += 1;
                if is_nul {
                    self.flags.nul_rejected += 1;
                }
                self.client_error_status("rejected append")?;
                Ok(None)
            }
            Err(e) => Err(must::<()>("append", Err(e)).unwrap_err()),
        }
    }

    pub fn do_import(&mut self, spec: FrameSpec) -> Check {
        // (unstorable: NUL in the topic, or the TTL that is none - `head:0`)
        let is_nul = spec.topic.as_bytes().contains(&0) || spec.ttl == Some(WTtl::Head(0));
        let id = spec.id.unwrap();
        self.in_flight = Some(InFlight::Import(spec.clone()));
        let res = if self.use_http(None) {
            let sock = self.sock.clone().unwrap();
            let out = if self.via_client {
                let o = self.client_call(crate::exec::ClientOp::Import {
                    line: frame_json_for_import(&spec),
                });
                Self::client_frame(o, "import")
            } else {
                crate::httpx::import(&sock, &spec)
            };
            match self.http(out)? {
                Ok(echo) => {
                    // the route answers with the frame it stored
                    let want = WFrame {
                        id: id_str(id),
                        ctx: id_str(spec.ctx),
                        topic: spec.topic.clone(),
                        hash: spec.hash.clone(),
                        meta: spec.meta_printed(),
                        ttl: spec.ttl.clone(),
                    };
                    if echo != want {
                        return Err(Fail::new(
                            Class::Http,
                            format!("POST /import answered {echo:?} for the frame {want:?}"),
                        ));
                    }
                    Ok(())
                }
                Err(e) => Err(e),
            }
        } else {
            self.ex().import(&spec)
        };
        if !matches!(res, Err(ExecErr::Died(_))) {
            self.in_flight = None;
        }
        self.checks += 1;
        match res {
            Ok(()) => {
                if is_nul {
                    return Err(Fail::new(
                        Class::NulTopic,
                        format!("import of a frame with NUL in its topic {:?} was accepted", spec.topic),
                    ));
                }
                self.model.apply_import(&spec);
                self.flags.had_import = true;
                if let Some(k) = self.known.iter_mut().find(|k| k.id == id) {
                    k.removed = false;
                    k.spec = spec.clone();
                } else {
                    self.known.push(Known {
                        id,
                        spec: spec.clone(),
                        removed: false,
                    });
                }
                if spec.topic == "xs.context" && spec.ctx == ZERO && !self.ctxs.contains(&id) {
                    self.ctxs.push(id);
                }
                if spec.topic == "xs.context" {
                    self.reg_changed_since_reopen = true;
                }
                self.note_topic(&spec.topic);
                Ok(())
            }
            Err(ExecErr::Err(e)) => {
                let deep = spec.meta.as_ref().map(|m| m.depth() > 64).unwrap_or(false);
                if !is_nul && !deep {
                    return Err(Fail::new(
                        Class::Import,
                        format!("import of a storable frame {} was rejected: {e}", id_str(id)),
                    ));
                }
                self.flags.nul_rejected += 1;
                self.client_error_status("rejected import")?;
                Ok(())
            }
            Err(e) => Err(must::<()>("import", Err(e)).unwrap_err()),
        }
    }

    pub fn stream_read(
        &mut self,
        path: ReadPath,
        ctx: Option<u128>,
        last: Option<u128>,
        limit: Option<usize>,
    ) -> Result<Vec<WFrame>, Fail> {
        let path = match path {
            ReadPath::HttpNd | ReadPath::HttpSse if !self.use_http(None) => ReadPath::Sync,
            p => p,
        };
        let ropts = ROpts {
            follow: None,
            tail: false,
            last_id: last,
            limit,
            ctx,
        };
        let res = match path {
            ReadPath::Sync => must("read_sync", self.ex().read_sync(last, limit, ctx))?,
            ReadPath::Stream => must("read", self.ex().read(&ropts))?,
            ReadPath::HttpNd | ReadPath::HttpSse => {
                let sock = self.sock.clone().unwrap();
                let sse = path == ReadPath::HttpSse;
                let out = if self.via_client {
                    use crate::httpx::HOut;
                    // (the library's `sse` flag is without effect on the pinned tree: it sends its
                    // Accept header after a default `Accept: */*` and the server looks at the first
                    // one only. The rendering a client asks for is no listed property; NDJSON is
                    // requested here and the SSE rendering is checked with the raw client.)
                    match self.client_call(crate::exec::ClientOp::Cat { opts: ropts.clone(), sse: false }) {
                        HOut::Ok(body) => {
                            let parsed = crate::httpx::parse_ndjson(&body);
                            match parsed {
                                Ok(v) => HOut::Ok(v),
                                Err(e) => HOut::Broken(format!("xs::client::cat: {e}")),
                            }
                        }
                        HOut::Status(s, b) => HOut::Status(s, b),
                        HOut::Broken(m) => HOut::Broken(m),
                        HOut::Infra(m) => HOut::Infra(m),
                    }
                } else {
                    crate::httpx::read(&sock, &ropts, sse)
                };
                let r = self.http(out)?;
                must("GET /", r)?
            }
        };
        let what = format!(
            "{}(ctx={}, last_id={}, limit={:?})",
            match path {
                ReadPath::Sync => "read_sync",
                ReadPath::Stream => "read",
                ReadPath::HttpNd => "GET / (ndjson)",
                ReadPath::HttpSse => "GET / (sse)",
            },
            ctx.map(id_str).unwrap_or("all".into()),
            last.map(id_str).unwrap_or("-".into()),
            limit
        );
        let before_expired: Vec<u128> = self
            .model
            .frames
            .values()
            .filter(|f| self.model.is_expired(f))
            .map(|f| f.id)
            .collect();
        self.model.check_stream(&what, ctx, last, limit, &res)?;
        self.checks += 1;
        if !before_expired.is_empty() {
            self.flags.had_expiry = true;
            match path {
                ReadPath::Sync => self.flags.expiry_seen_sync = true,
                _ => self.flags.expiry_seen_stream = true,
            }
        }
        Ok(res)
    }

    pub fn drain(&mut self) -> Check {
        must("wait_for_gc", self.ex().gc())?;
        let before: BTreeMap<u128, (u128, String)> = self
            .model
            .frames
            .values()
            .map(|f| (f.id, (f.ctx, f.topic.clone())))
            .collect();
        self.model.drain();
        self.pending_head_append = false;
        // what this drain certainly collected (expired frames a read had met, head:K evictions) is
        // physically gone: a lookup by id finds nothing
        let collected: Vec<u128> = self
            .model
            .gone
            .iter()
            .filter(|(id, why)| before.contains_key(id) && matches!(why, GoneWhy::Evicted | GoneWhy::Expired))
            .map(|(id, _)| *id)
            .take(6)
            .collect();
        for id in collected {
            let got = must("get", self.ex().get(id))?;
            self.model.check_get("after the collector drained: get", id, got.as_ref())?;
            self.checks += 1;
        }
        // bookkeeping for the non-triviality rules
        let evicted: Vec<(u128, String)> = self
            .model
            .gone
            .iter()
            .filter(|(id, why)| {
                before.contains_key(id) && matches!(why, GoneWhy::Evicted | GoneWhy::Expired)
            })
            .map(|(id, _)| before[id].clone())
            .collect();
        for (ctx, topic) in evicted {
            self.flags.had_eviction = true;
            let neighbour = self.model.frames.values().any(|f| {
                (f.ctx == ctx
                    && f.topic != topic
                    && (f.topic.starts_with(&topic) || topic.starts_with(&f.topic)))
                    || (f.ctx != ctx && f.topic == topic)
            });
            if neighbour {
                self.flags.gc_removed_with_neighbour = true;
            }
        }
        Ok(())
    }

    fn check_follower(&mut self) -> Check {
        let Some((h, expected)) = self.follower.clone() else {
            return Ok(());
        };
        let deadline = Instant::now() + Duration::from_secs(10);
        loop {
            let (frames, closed): (Vec<WFrame>, bool) = match &self.http_follower {
                Some(hf) => {
                    let (fr, closed, err) = hf.poll();
                    if let Some(e) = err {
                        return Err(Fail::new(
                            Class::Http,
                            format!("following GET / ({}): {e}", if hf.sse { "sse" } else { "ndjson" }),
                        ));
                    }
                    (fr, closed)
                }
                None => {
                    let (items, closed, _) = must("follow_poll", self.ex().follow_poll(h))?;
                    (items.into_iter().map(|i| i.frame).collect(), closed)
                }
            };
            let got: Vec<&WFrame> = frames.iter().collect();
            let done = got.len() >= expected.len();
            if done || closed || Instant::now() > deadline {
                self.checks += 1;
                if closed {
                    return Err(Fail::new(
                        Class::Follow,
                        "a tail follower's stream ended although nothing closed it".to_string(),
                    ));
                }
                for (i, g) in got.iter().enumerate() {
                    match expected.get(i) {
                        Some(e) if *e == **g => {}
                        Some(e) => {
                            return Err(Fail::new(
                                Class::Follow,
                                format!(
                                    "tail follower received {:?} at position {i} where the {i}-th accepted append was {:?}",
                                    g, e
                                ),
                            ))
                        }
                        None => {
                            let class = if g.topic.as_bytes().contains(&0) {
                                Class::NulTopic
                            } else {
                                Class::Follow
                            };
                            return Err(Fail::new(
                                class,
                                format!(
                                    "tail follower received frame {} ({:?}) that no accepted append produced (rejected appends and imports must not be broadcast)",
                                    g.id, g.topic
                                ),
                            ));
                        }
                    }
                }
                if got.len() < expected.len() {
                    let miss = &expected[got.len()];
                    return Err(Fail::new(
                        if miss.ttl == Some(WTtl::Ephemeral) {
                            Class::ExtraEphemeral
                        } else {
                            Class::Follow
                        },
                        format!(
                            "tail follower did not receive appended frame {} ({:?}, ttl {:?}) within 10 s ({} of {} delivered)",
                            miss.id,
                            miss.topic,
                            miss.ttl,
                            got.len(),
                            expected.len()
                        ),
                    ));
                }
                return Ok(());
            }
            std::thread::sleep(Duration::from_millis(1));
        }
    }

    pub fn reopen(&mut self) -> Check {
        self.check_follower()?;
        if let Some(e) = self.exec.take() {
            e.kill();
        }
        if self.pending_head_append {
            self.flags.deferred_drain = true;
        }
        self.pending_head_append = false;
        self.model.reopen();
        self.follower = None;
        self.http_follower = None;
        self.opts.env = vec![("XSV_CLOCK".into(), self.model.clock.to_string())];
        match Exec::spawn(&self.dir.path, &self.opts) {
            Ok(e) => self.exec = Some(e),
            Err(ExecErr::Panic(p)) => {
                return Err(Fail::new(
                    Class::Panic,
                    format!("the store does not reopen: {p}"),
                ))
            }
            Err(e) => return Err(infra(format!("respawn: {e}"))),
        }
        self.flags.had_reopen = true;
        if self.reg_changed_since_reopen {
            self.flags.reg_then_reopen_with_change = true;
        }
        self.sock = None;
        self.start_api()?;
        self.start_follower()?;
        Ok(())
    }

    /// The executor died (crash injection): bring the store up again in a fresh
    /// process. Queued collector work may or may not have run.
    pub fn reopen_after_crash(&mut self) -> Check {
        if let Some(e) = self.exec.take() {
            e.kill();
        }
        self.pending_head_append = false;
        // (the caller settles the operation that was in flight and then calls
        // `model.reopen()`: its collector work, too, may or may not have run)
        self.follower = None;
        self.http_follower = None;
        self.in_flight = None;
        self.opts.env.retain(|(k, _)| k != "XSV_CLOCK");
        self.opts
            .env
            .push(("XSV_CLOCK".into(), self.model.clock.to_string()));
        match Exec::spawn(&self.dir.path, &self.opts) {
            Ok(e) => self.exec = Some(e),
            Err(ExecErr::Panic(p)) => {
                return Err(Fail::new(
                    Class::Panic,
                    format!("the store does not reopen after the crash: {p}"),
                ))
            }
            Err(e) => return Err(infra(format!("respawn: {e}"))),
        }
        self.flags.had_reopen = true;
        self.flags.deferred_drain = true;
        self.sock = None;
        self.start_api()?;
        self.start_follower()?;
        Ok(())
    }

    /// Settle (full read, drain, collapse what is left undetermined) and then
    /// compare every access path with the model and with each other.
    pub fn observe_all(&mut self, tag: &str) -> Check {
        self.stream_read(ReadPath::Sync, None, None, None)?;
        self.drain()?;
        for id in self.model.maybe_ids() {
            let got = must("get", self.ex().get(id))?;
            if std::env::var_os("XSV_TRACE").is_some() {
                eprintln!("-- collapse {} -> {:?}", id_str(id), got.is_some());
            }
            self.model.check_get(&format!("{tag}: get"), id, got.as_ref())?;
            self.model.collapse(id, got.is_some());
        }
        // exact from here on
        let all = self.stream_read(ReadPath::Sync, None, None, None)?;
        // whatever is visible with a hash whose content this history wrote still has that
        // content, byte for byte (removing one frame must not take away what another shares)
        let mut swept: BTreeSet<&String> = BTreeSet::new();
        for w in all.iter().filter(|_| self.content_sweep) {
            if let Some(h) = &w.hash {
                if let Some(want) = self.contents.get(h) {
                    if !swept.insert(h) {
                        continue;
                    }
                    let want = want.clone();
                    let got = self
                        .exec
                        .as_mut()
                        .expect("executor running")
                        .cas_read(h, false)
                        .map_err(|e| Fail::new(Class::Cas, format!("{tag}: frame {} ({:?}) is visible with hash {h} but its content is not retrievable: {e}", w.id, w.topic)))?;
                    self.checks += 1;
                    if got != want {
                        return Err(Fail::new(
                            Class::Cas,
                            format!("{tag}: content {h} of frame {} reads back as {} bytes, {} were written", w.id, got.len(), want.len()),
                        ));
                    }
                }
            }
        }
        let all2 = self.stream_read(ReadPath::Stream, None, None, None)?;
        if all != all2 {
            return Err(Fail::new(
                Class::CrossPath,
                format!("{tag}: read_sync and read disagree on the all-contexts stream"),
            ));
        }
        let all_ids: BTreeSet<u128> = all.iter().map(|w| w.id128()).collect();
        let mut ctxs: BTreeSet<u128> = self.model.contexts_in_use();
        ctxs.extend(self.ctxs.iter().cloned());
        ctxs.extend(self.ctxs.iter().map(|c| c.wrapping_add(1)));
        ctxs.insert(bogus_ctx(0));
        ctxs.insert(bogus_ctx(3));
        let mut per_ctx: BTreeMap<u128, Vec<WFrame>> = BTreeMap::new();
        let mut union_ids: BTreeSet<u128> = BTreeSet::new();
        for c in &ctxs {
            let r = self.stream_read(ReadPath::Sync, Some(*c), None, None)?;
            let r2 = self.stream_read(ReadPath::Stream, Some(*c), None, None)?;
            if r != r2 {
                return Err(Fail::new(
                    Class::CrossPath,
                    format!("{tag}: read_sync and read disagree on context {}", id_str(*c)),
                ));
            }
            for w in &r {
                if !union_ids.insert(w.id128()) {
                    return Err(Fail::new(
                        Class::CrossPath,
                        format!("{tag}: frame {} appears in two context streams", w.id),
                    ));
                }
            }
            per_ctx.insert(*c, r);
        }
        if union_ids != all_ids {
            let only_all: Vec<String> = all_ids.difference(&union_ids).map(|i| id_str(*i)).collect();
            let only_ctx: Vec<String> = union_ids.difference(&all_ids).map(|i| id_str(*i)).collect();
            return Err(Fail::new(
                Class::CrossPath,
                format!(
                    "{tag}: the all-contexts stream and the per-context streams disagree: only in all-stream {only_all:?}, only in a context stream {only_ctx:?}"
                ),
            ));
        }
        // by-id lookups: everything ever accepted, ephemeral ids, neighbours
        let mut probe: Vec<u128> = self.known.iter().map(|k| k.id).collect();
        probe.extend(self.ephemeral_ids.iter().cloned());
        probe.extend(all_ids.iter().cloned());
        probe.push(0);
        probe.push(u128::MAX);
        probe.sort();
        probe.dedup();
        for id in probe {
            let got = must("get", self.ex().get(id))?;
            self.model.check_get(&format!("{tag}: get"), id, got.as_ref())?;
            self.checks += 1;
            if got.is_some() != all_ids.contains(&id) {
                return Err(Fail::new(
                    Class::CrossPath,
                    format!(
                        "{tag}: frame {} is {} by id but {} the all-contexts stream",
                        id_str(id),
                        if got.is_some() { "found" } else { "not found" },
                        if all_ids.contains(&id) { "in" } else { "not in" }
                    ),
                ));
            }
        }
        // heads: every topic seen, its one-byte extensions and truncations, in every context
        let mut topics: BTreeSet<String> = self.topics_used.clone();
        for t in PREFIX_FAMILY {
            topics.insert(t.to_string());
        }
        let base: Vec<String> = topics.iter().cloned().collect();
        for t in base {
            if !t.as_bytes().contains(&0) {
                topics.insert(format!("{t}\u{1}"));
                topics.insert(format!("{t}a"));
                let mut cs: Vec<char> = t.chars().collect();
                if cs.pop().is_some() {
                    topics.insert(cs.into_iter().collect());
                }
            }
        }
        for c in &ctxs {
            for t in &topics {
                if t.as_bytes().contains(&0) {
                    continue;
                }
                let got = must("head", self.ex().head(t, *c))?;
                self.model
                    .check_head(&format!("{tag}: head"), t, *c, got.as_ref())?;
                self.checks += 1;
                // independent of the model: head == last frame of the context stream with that topic
                let want = per_ctx[c].iter().rev().find(|w| w.topic == *t);
                if got.as_ref() != want {
                    return Err(Fail::new(
                        Class::Head,
                        format!(
                            "{tag}: head({t:?}, {}) = {:?} but the last frame of that topic in the context's stream is {:?}",
                            id_str(*c),
                            got.as_ref().map(|w| (&w.id, &w.topic)),
                            want.map(|w| (&w.id, &w.topic))
                        ),
                    ));
                }
            }
        }
        // C09: at most N frames where the newest was appended with head:N (topics no import touched)
        let imported_topics: BTreeSet<(u128, String)> = self
            .model
            .frames
            .values()
            .filter(|f| f.origin == Origin::Import)
            .map(|f| (f.ctx, f.topic.clone()))
            .collect();
        let mut groups: BTreeMap<(u128, String), Vec<&WFrame>> = BTreeMap::new();
        for w in &all {
            groups.entry((w.ctx128(), w.topic.clone())).or_default().push(w);
        }
        // (not claimed after a kill with eviction work still queued: the statement
        // quantifies over histories, and queued collector work does not survive a kill)
        if !self.flags.had_import && !self.flags.deferred_drain {
            for ((c, t), v) in &groups {
                let newest = v.last().unwrap();
                if let Some(WTtl::Head(n)) = newest.ttl {
                    if !imported_topics.contains(&(*c, t.clone())) && v.len() > n as usize {
                        return Err(Fail::new(
                            Class::ExtraEvicted,
                            format!(
                                "{tag}: topic {t:?} in context {} holds {} frames after the collector drained although its newest frame {} carries head:{n}",
                                id_str(*c),
                                v.len(),
                                newest.id
                            ),
                        ));
                    }
                    if n >= 2 && self.flags.had_eviction {
                        self.flags.eviction_k2 = true;
                    }
                }
            }
        }
        self.check_follower()?;
        Ok(())
    }

    fn keep_alive(&mut self, sock: &std::path::Path, kinds: &[u8]) -> Check {
        use crate::http::{Body, Conn, Req};
        let mut conn = Conn::open(sock).map_err(|e| infra(format!("connect: {e:?}")))?;
        for (i, k) in kinds.iter().enumerate() {
            let absent = sha256_integrity(&[*k, i as u8, 7, 7, 7]);
            let (mut req, want): (Req, std::ops::Range<u16>) = match k % 8 {
                0 => (Req::new("GET", "/version"), 200..201),
                1 => (Req::new("GET", "/zzz"), 400..401),
                2 => (Req::new("POST", "/t?ttl=head:0").body(Body::Len(b"x".to_vec())), 400..401),
                3 => (Req::new("GET", "/head/no.such.topic.anywhere"), 404..405),
                4 => (Req::new("GET", &format!("/cas/{absent}")), 404..405),
                5 => (Req::new("DELETE", "/not-an-id"), 400..401),
                6 => (Req::new("POST", "/import").body(Body::Len(b"{".to_vec())), 400..401),
                _ => (Req::new("GET", "/?limit=abc"), 400..401),
            };
            req.close = false;
            conn.send(&req.to_bytes()).ok();
            self.http_requests += 1;
            self.checks += 1;
            let resp = conn.read_response(crate::httpx::T).map_err(|e| {
                Fail::new(
                    Class::Http,
                    format!(
                        "request #{i} ({} {}) of a keep-alive sequence {kinds:?} got no well-formed response: {e:?}",
                        req.method, req.target
                    ),
                )
            })?;
            if !want.contains(&resp.status) {
                return Err(Fail::new(
                    Class::Http,
                    format!(
                        "request #{i} ({} {}) of a keep-alive sequence {kinds:?} was answered {} (expected {})",
                        req.method, req.target, resp.status, want.start
                    ),
                ));
            }
        }
        self.stream_read(ReadPath::Sync, None, None, None).map_err(|mut f| {
            f.class = Class::Http;
            f.msg = format!("after a keep-alive sequence of refused requests: {}", f.msg);
            f
        })?;
        Ok(())
    }

    /// One complete GET request with edited head bytes: answered 2xx or 4xx, store unchanged,
    /// server still serving.
    fn mangled(&mut self, sock: &std::path::Path, template: u8, edits: &[(u16, u8, u8)]) -> Check {
        use crate::http::{roundtrip_raw, Req};
        let some_id = self.known.last().map(|k| k.id).unwrap_or(1u128 << 100);
        let some_ctx = self.ctxs.last().cloned().unwrap_or(ZERO);
        let some_hash = self
            .known
            .iter()
            .rev()
            .find_map(|k| k.spec.hash.clone())
            .unwrap_or_else(|| sha256_integrity(b"x"));
        let req = match template % 8 {
            0 => Req::new("GET", "/"),
            1 => Req::new(
                "GET",
                &format!("/?limit=5&last-id={}&context-id={}", id_str(some_id), id_str(some_ctx)),
            ),
            2 => Req::new("GET", &format!("/head/topic.a?context={}", id_str(some_ctx))),
            3 => Req::new("GET", &format!("/{}", id_str(some_id))),
            4 => Req::new("GET", &format!("/cas/{some_hash}")),
            5 => Req::new("GET", "/version"),
            6 => Req::new("GET", "/?limit=3&tail=false").header("Accept", b"text/event-stream"),
            _ => Req::new("GET", "/head/a%20b"),
        };
        let mut bytes = req.to_bytes();
        const TABLE: &[u8] = &[
            0x00, 0x0a, 0x0d, 0x20, b'%', b'?', b'&', b'=', b'/', b'#', 0x7f, 0x80, 0xff, 0xc3, b'a', b'0', b':', b';',
            b'+', b'"', b'\\', b'.', b'[', b'{', 0x09, 0x01,
        ];
        for (pos, byte, kind) in edits {
            // never the method, never the terminating CRLFCRLF: the request stays one complete GET
            let lo = 4usize;
            let hi = bytes.len() - 4;
            if hi <= lo {
                break;
            }
            let at = lo + (*pos as usize * (hi - lo) >> 16);
            let b = if *byte < 160 { TABLE[*byte as usize % TABLE.len()] } else { *byte };
            match kind % 3 {
                0 => bytes[at] = b,
                1 => bytes.insert(at, b),
                _ => {
                    bytes.remove(at);
                }
            }
        }
        self.http_requests += 1;
        self.checks += 1;
        let shown = String::from_utf8_lossy(&bytes).to_string();
        let resp = match roundtrip_raw(sock, &bytes, crate::httpx::T) {
            Ok(r) => r,
            Err(crate::http::HttpErr::Connect(e)) => return Err(infra(format!("connect: {e}"))),
            Err(e) => {
                return Err(Fail::new(
                    Class::Http,
                    format!("mangled request {shown:?} got no well-formed response: {e:?}"),
                ))
            }
        };
        if !((200..300).contains(&resp.status) || (400..500).contains(&resp.status)) {
            return Err(Fail::new(
                Class::Http,
                format!(
                    "mangled request {shown:?} was answered {} {:?} (neither success nor a client error)",
                    resp.status,
                    resp.text().chars().take(120).collect::<String>()
                ),
            ));
        }
        self.stream_read(ReadPath::Sync, None, None, None).map_err(|mut f| {
            f.class = Class::Http;
            f.msg = format!("after mangled request {shown:?}: {}", f.msg);
            f
        })?;
        match crate::httpx::version(sock) {
            crate::httpx::HOut::Ok(_) => Ok(()),
            crate::httpx::HOut::Infra(e) => Err(infra(format!("connect: {e}"))),
            other => Err(Fail::new(
                Class::Http,
                format!("after mangled request {shown:?} GET /version answered {other:?}"),
            )),
        }
    }

    /// Send a request that must be refused: well-formed 4xx response, nothing
    /// stored, server still serving.
    fn bad_request(&mut self, b: &BadReq) -> Check {
        use crate::http::{roundtrip, Body, Req};
        let Some(sock) = self.sock.clone() else {
            return Ok(());
        };
        if let BadReq::KeepAlive { kinds } = b {
            return self.keep_alive(&sock, kinds);
        }
        if let BadReq::Mangled { template, edits } = b {
            return self.mangled(&sock, *template, edits);
        }
        if let BadReq::BrokenBody { route } = b {
            let path = match route % 3 {
                0 => "/broken.body",
                1 => "/cas",
                _ => "/import",
            };
            let raw = format!("POST {path} HTTP/1.1\r\nHost: localhost\r\nTransfer-Encoding: chunked\r\nConnection: close\r\n\r\n5\r\nhello\r\nZZZ\r\nworld\r\n0\r\n\r\n");
            self.http_requests += 1;
            self.checks += 1;
            let resp = match crate::http::roundtrip_raw(&sock, raw.as_bytes(), crate::httpx::T) {
                Ok(r) => r,
                Err(crate::http::HttpErr::Connect(e)) => return Err(infra(format!("connect: {e}"))),
                Err(e) => {
                    return Err(Fail::new(Class::Http, format!("POST {path} with a chunked body that breaks after 5 bytes got no well-formed response: {e:?}")))
                }
            };
            if !(400..500).contains(&resp.status) {
                let sig = "http-500-for-broken-request-body";
                if resp.status == 500 && crate::runner::known().lists(sig) {
                    self.known_hits.push(sig.to_string());
                } else {
                    return Err(Fail::new(
                        Class::Http,
                        format!("POST {path} with a chunked body that breaks after 5 bytes (a client error) was answered {} {:?}", resp.status, resp.text().chars().take(120).collect::<String>()),
                    ));
                }
            }
            // nothing of it may have been stored, and the server must still answer
            self.stream_read(ReadPath::Sync, None, None, None).map_err(|mut f| {
                f.class = Class::Http;
                f.msg = format!("after a request with a broken body to {path}: {}", f.msg);
                f
            })?;
            return match crate::httpx::version(&sock) {
                crate::httpx::HOut::Ok(_) => Ok(()),
                crate::httpx::HOut::Infra(e) => Err(infra(format!("connect: {e}"))),
                other => Err(Fail::new(Class::Http, format!("after a request with a broken body GET /version answered {other:?}"))),
            };
        }
        let mut allow_404 = false;
        let req = match b {
            BadReq::BadId { delete, id } => {
                Req::new(if *delete { "DELETE" } else { "GET" }, &format!("/{id}"))
            }
            BadReq::BadTtl { topic, ttl } => Req::new("POST", &format!("/{topic}?ttl={ttl}"))
                .body(Body::Len(b"x".to_vec())),
            BadReq::BadContext { topic, ctx } => {
                Req::new("POST", &format!("/{topic}?context={ctx}")).body(Body::Len(b"x".to_vec()))
            }
            BadReq::BadMeta {
                topic,
                kind,
                with_body,
            } => {
                let value: Vec<u8> = match kind {
                    0 => b"@@not-base64@@".to_vec(),
                    1 => b64(&[0xff, 0xfe, 0xfd]).into_bytes(),
                    2 => b64(b"{not json").into_bytes(),
                    3 => vec![0xff, 0xfe],
                    // invalid UTF-8 *inside* a JSON string literal: still not UTF-8
                    4 => b64(b"{\"k\":\"\xff\"}").into_bytes(),
                    5 => b64(b"{\"k\":\"ab\xe6\x97\"}").into_bytes(),
                    // a header that is present but empty / blank / decodes to blank text: no JSON
                    // document at all (not the same request as one without the header)
                    7 => Vec::new(),
                    8 => b"  ".to_vec(),
                    9 => b64(b" ").into_bytes(),
                    _ => b64(b"[\"\xc3\x28\", 1]").into_bytes(),
                };
                let r = Req::new("POST", &format!("/{topic}")).header("xs-meta", &value);
                if *with_body {
                    r.body(Body::Len(b"content".to_vec()))
                } else {
                    r.body(Body::Len(Vec::new()))
                }
            }
            BadReq::BadReadQuery { q, sse } => {
                let r = Req::new("GET", &format!("/?{q}"));
                if *sse {
                    r.header("Accept", b"text/event-stream")
                } else {
                    r
                }
            }
            BadReq::BadHeadContext { topic, ctx } => {
                Req::new("GET", &format!("/head/{topic}?context={ctx}"))
            }
            BadReq::BadCasHash { h } => Req::new("GET", &format!("/cas/{h}")),
            BadReq::AbsentCas { seed } => {
                allow_404 = true;
                let h = sha256_integrity(&[*seed, 0x5a, 0xa5, *seed, 1, 2, 3, 4, 5, 6, 7, 8, 9]);
                Req::new("GET", &format!("/cas/{h}"))
            }
            BadReq::EmptyCasPost => Req::new("POST", "/cas").body(Body::Len(Vec::new())),
            BadReq::BadImport { body } => {
                Req::new("POST", "/import").body(Body::Len(body.clone().into_bytes()))
            }
            BadReq::UnknownMethod { method, path } => {
                allow_404 = true;
                Req::new(method, path)
            }
            BadReq::KeepAlive { .. } | BadReq::Mangled { .. } | BadReq::BrokenBody { .. } => unreachable!(),
        };
        self.http_requests += 1;
        self.checks += 1;
        let is_head = req.method == "HEAD";
        let resp = match roundtrip(&sock, &req, crate::httpx::T) {
            Ok(r) => r,
            Err(crate::http::HttpErr::Connect(e)) => return Err(infra(format!("connect: {e}"))),
            Err(crate::http::HttpErr::Timeout) if is_head => return Ok(()),
            Err(e) => {
                return Err(Fail::new(
                    Class::Http,
                    format!(
                        "{} {} ({b:?}) got no well-formed response: {e:?}",
                        req.method, req.target
                    ),
                ))
            }
        };
        let _ = allow_404;
        if !(400..500).contains(&resp.status) {
            return Err(Fail::new(
                Class::Http,
                format!(
                    "{} {} ({b:?}) must be refused with a 4xx status but got {} {:?}",
                    req.method,
                    req.target,
                    resp.status,
                    resp.text().chars().take(120).collect::<String>()
                ),
            ));
        }
        // nothing may have been stored, and the server must still answer
        self.stream_read(ReadPath::Sync, None, None, None)
            .map_err(|mut f| {
                f.class = Class::Http;
                f.msg = format!("after refused request {b:?}: {}", f.msg);
                f
            })?;
        match crate::httpx::version(&sock) {
            crate::httpx::HOut::Ok(_) => Ok(()),
            crate::httpx::HOut::Infra(e) => Err(infra(format!("connect: {e}"))),
            other => Err(Fail::new(
                Class::Http,
                format!("after refused request {b:?} GET /version answered {other:?}"),
            )),
        }
    }

    pub fn step(&mut self, op: &Op) -> Check {
        if std::env::var_os("XSV_TRACE").is_some() {
            eprintln!("-- op {}: model frames {:?}", op.kind(), self.model.frames.values().map(|f| (id_str(f.id), f.topic.clone(), f.presence)).collect::<Vec<_>>());
        }
        match op {
            Op::Bad(b) => self.bad_request(b)?,
            Op::Append {
                topic,
                ctx,
                ttl,
                meta,
                content,
            } => {
                let spec = FrameSpec {
                    topic: topic.clone(),
                    ctx: self.resolve_ctx(ctx),
                    id: None,
                    hash: None,
                    meta: meta.clone(),
                    ttl: ttl.clone(),
                };
                self.do_append(spec, content.as_ref().map(|c| c.bytes()))?;
            }
            Op::Register { ttl } => {
                let spec = FrameSpec {
                    topic: "xs.context".into(),
                    ctx: ZERO,
                    id: None,
                    hash: None,
                    meta: None,
                    ttl: ttl.clone(),
                };
                self.do_append(spec, None)?;
            }
            Op::RegisterIn { ctx } => {
                let spec = FrameSpec {
                    topic: "xs.context".into(),
                    ctx: self.resolve_ctx(ctx),
                    id: None,
                    hash: None,
                    meta: None,
                    ttl: None,
                };
                self.do_append(spec, None)?;
            }
            Op::Import(imp) => match imp {
                ImportOp::Fresh {
                    topic,
                    ctx,
                    ttl,
                    meta,
                    hash,
                    pos,
                } => {
                    if topic == "xs.context" {
                        return Ok(());
                    }
                    let id = self.resolve_pos(pos);
                    let spec = FrameSpec {
                        topic: topic.clone(),
                        ctx: self.resolve_ctx(ctx),
                        id: Some(id),
                        hash: if *hash {
                            Some(sha256_integrity(&id.to_le_bytes()))
                        } else {
                            None
                        },
                        meta: meta.clone(),
                        ttl: ttl.clone(),
                    };
                    self.do_import(spec)?;
                }
                ImportOp::Again(s) => {
                    let live: Vec<FrameSpec> = self
                        .known
                        .iter()
                        .filter(|k| !k.removed && self.model.frames.contains_key(&k.id))
                        .map(|k| k.spec.clone())
                        .collect();
                    if let Some(i) = pick(*s, live.len()) {
                        // importing the very frame that is stored must change nothing
                        let spec = live[i].clone();
                        let mf = &self.model.frames[&spec.id.unwrap()];
                        if mf.presence == Presence::Present && mf.pending_remove.is_none() {
                            let origin = mf.origin;
                            self.do_import(spec.clone())?;
                            self.model.frames.get_mut(&spec.id.unwrap()).unwrap().origin = origin;
                        }
                    }
                }
                ImportOp::Back(s) => {
                    let gone: Vec<FrameSpec> = self
                        .known
                        .iter()
                        .filter(|k| !self.model.frames.contains_key(&k.id))
                        .map(|k| k.spec.clone())
                        .collect();
                    if let Some(i) = pick(*s, gone.len()) {
                        let spec = gone[i].clone();
                        if spec.ttl == Some(WTtl::Ephemeral) {
                            return Ok(());
                        }
                        self.do_import(spec)?;
                    }
                }
                ImportOp::Amend {
                    target,
                    meta,
                    ttl,
                    hash,
                } => {
                    let ev = self.model.pending_evictable();
                    // (registration frames included: re-importing one with other meta keeps the
                    // context registered; their ttl stays what it is)
                    let live: Vec<FrameSpec> = self
                        .known
                        .iter()
                        .filter(|k| !ev.contains(&k.id))
                        .filter(|k| k.spec.topic != "xs.context" || (k.spec.ctx == ZERO && matches!(k.spec.ttl, None | Some(WTtl::Forever))))
                        .filter(|k| {
                            self.model
                                .frames
                                .get(&k.id)
                                .map(|f| f.presence == Presence::Present && f.pending_remove.is_none() && !self.model.is_expired(f))
                                .unwrap_or(false)
                        })
                        .map(|k| k.spec.clone())
                        .collect();
                    if let Some(i) = pick(*target, live.len()) {
                        let mut spec = live[i].clone();
                        spec.meta = meta.clone();
                        if spec.topic == "xs.context" {
                            self.flags.registration_amended = true;
                            spec.ttl = Some(WTtl::Forever);
                            self.do_import(spec)?;
                            return Ok(());
                        }
                        spec.ttl = ttl.clone();
                        spec.hash = if *hash {
                            Some(sha256_integrity(&spec.id.unwrap().to_be_bytes()))
                        } else {
                            None
                        };
                        self.do_import(spec)?;
                    }
                }
                ImportOp::Move { target, topic, ctx } => {
                    let ev = self.model.pending_evictable();
                    let live: Vec<FrameSpec> = self
                        .known
                        .iter()
                        .filter(|k| k.spec.topic != "xs.context" && !ev.contains(&k.id))
                        .filter(|k| {
                            self.model
                                .frames
                                .get(&k.id)
                                .map(|f| f.presence == Presence::Present && f.pending_remove.is_none() && !self.model.is_expired(f))
                                .unwrap_or(false)
                        })
                        .map(|k| k.spec.clone())
                        .collect();
                    if let Some(i) = pick(*target, live.len()) {
                        let mut spec = live[i].clone();
                        if let Some(t) = topic {
                            if t != "xs.context" && !t.as_bytes().contains(&0) {
                                spec.topic = t.clone();
                            }
                        }
                        if let Some(c) = ctx {
                            // the zero context or one of the registered ones (import stores as is)
                            let mut all = vec![ZERO];
                            all.extend(self.ctxs.iter().cloned());
                            spec.ctx = all[*c as usize % all.len()];
                        }
                        // retention work queued for the old topic does not follow the frame around:
                        // keep it simple and give the moved frame no TTL of its own
                        spec.ttl = Some(WTtl::Forever);
                        // (and no moves out of or into a topic for which head:K work is still queued:
                        // whether that work meets the frame depends on when the collector runs)
                        if self.model.has_pending_head(live[i].ctx, &live[i].topic) || self.model.has_pending_head(spec.ctx, &spec.topic) {
                            return Ok(());
                        }
                        if spec.topic != live[i].topic || spec.ctx != live[i].ctx {
                            self.flags.import_moved = true;
                        }
                        self.do_import(spec)?;
                    }
                }
                ImportOp::Reuse {
                    target,
                    topic,
                    ctx,
                    ttl,
                } => {
                    if topic == "xs.context" {
                        return Ok(());
                    }
                    // only ids that are certainly free (explicitly removed, evicted or
                    // collected), never ones whose fate is still open
                    let free: Vec<u128> = self
                        .known
                        .iter()
                        .filter(|k| !self.model.frames.contains_key(&k.id) && self.model.gone.contains_key(&k.id))
                        .filter(|k| k.spec.topic != "xs.context")
                        .map(|k| k.id)
                        .collect();
                    if let Some(i) = pick(*target, free.len()) {
                        let spec = FrameSpec {
                            topic: topic.clone(),
                            ctx: self.resolve_ctx(ctx),
                            id: Some(free[i]),
                            hash: None,
                            meta: None,
                            ttl: ttl.clone(),
                        };
                        self.do_import(spec)?;
                    }
                }
                ImportOp::Reg {
                    pos,
                    zero,
                    adjacent,
                    ttl,
                } => {
                    let id = match adjacent {
                        Some(k) if !self.ctxs.is_empty() => {
                            let mut v = self.ctxs[*k as usize % self.ctxs.len()].wrapping_add(1);
                            while self.known.iter().any(|k| k.id == v) {
                                v = v.wrapping_add(1);
                            }
                            v
                        }
                        _ => self.resolve_pos(pos),
                    };
                    if id == u128::MAX {
                        // (would register the context 2^128-1: outside the quantifier, see resolve_ctx)
                        return Ok(());
                    }
                    let spec = FrameSpec {
                        topic: "xs.context".into(),
                        ctx: if *zero {
                            ZERO
                        } else {
                            self.resolve_ctx(&CtxSel::Reg(0)).max(1)
                        },
                        id: Some(id),
                        hash: None,
                        meta: None,
                        ttl: ttl.clone(),
                    };
                    self.do_import(spec)?;
                }
                ImportOp::Nul { topic, pos, over } => {
                    let mut id = self.resolve_pos(pos);
                    if let Some(sel) = over {
                        let ev = self.model.pending_evictable();
                        let live: Vec<u128> = self
                            .known
                            .iter()
                            .filter(|k| k.spec.topic != "xs.context" && !ev.contains(&k.id))
                            .filter(|k| {
                                self.model
                                    .frames
                                    .get(&k.id)
                                    .map(|f| f.presence == Presence::Present && f.pending_remove.is_none() && !self.model.is_expired(f))
                                    .unwrap_or(false)
                            })
                            .map(|k| k.id)
                            .collect();
                        if let Some(i) = pick(*sel, live.len()) {
                            id = live[i];
                            self.flags.refused_import_over_stored = true;
                        }
                    }
                    let spec = FrameSpec {
                        topic: topic.clone(),
                        ctx: ZERO,
                        id: Some(id),
                        hash: None,
                        meta: None,
                        ttl: None,
                    };
                    self.do_import(spec)?;
                }
            },
            Op::Remove(sel) => {
                let id = self.resolve_id(sel);
                let was = self.model.frames.get(&id).cloned();
                self.in_flight = Some(InFlight::Remove(id));
                if self.use_http(None) {
                    let sock = self.sock.clone().unwrap();
                    let out = if self.via_client {
                        use crate::httpx::HOut;
                        match self.client_call(crate::exec::ClientOp::Remove { id: id_str(id) }) {
                            HOut::Ok(_) => HOut::Ok(()),
                            HOut::Status(s, b) => HOut::Status(s, b),
                            HOut::Broken(m) => HOut::Broken(m),
                            HOut::Infra(m) => HOut::Infra(m),
                        }
                    } else {
                        crate::httpx::remove(&sock, id)
                    };
                    let r = self.http(out)?;
                    must("DELETE /<id>", r)?;
                } else {
                    must("remove", self.ex().remove(id))?;
                }
                self.in_flight = None;
                self.checks += 1;
                self.model.apply_remove(id);
                if let Some(f) = was {
                    self.flags.had_remove = true;
                    if f.topic == "xs.context" {
                        self.reg_changed_since_reopen = true;
                    }
                }
                if let Some(k) = self.known.iter_mut().find(|k| k.id == id) {
                    k.removed = true;
                }
            }
            Op::Clock { frame, delta } => {
                let timed: Vec<(u128, u64)> = self
                    .model
                    .frames
                    .values()
                    .filter_map(|f| match f.ttl {
                        Some(WTtl::Time(n)) if n != u64::MAX => Some((f.id, n)),
                        _ => None,
                    })
                    .collect();
                if let Some(i) = pick(*frame, timed.len()) {
                    let (id, n) = timed[i];
                    let at = id_ts(id).saturating_add(n);
                    let target = if *delta < 0 {
                        at.saturating_sub((-*delta) as u64)
                    } else {
                        at.saturating_add(*delta as u64)
                    };
                    if target < u64::MAX {
                        self.model.set_clock(target);
                        let c = self.model.clock;
                        must("clock", self.ex().clock(Some(c)))?;
                    }
                }
            }
            Op::Drain => self.drain()?,
            Op::Reopen => self.reopen()?,
            Op::Read {
                path,
                ctx,
                last,
                limit,
            } => {
                let c = ctx.as_ref().map(|c| self.resolve_ctx(c));
                let l = last.as_ref().map(|l| self.resolve_id(l));
                if (c.is_some() || l.is_some() || limit.is_some())
                    && (self.flags.had_remove || self.flags.had_expiry || self.flags.had_import)
                {
                    self.flags.scoped_read_after_mutation = true;
                }
                self.stream_read(*path, c, l, limit.map(|x| x as usize))?;
            }
            Op::Get(sel) => {
                let id = self.resolve_id(sel);
                let got = if self.use_http(None) {
                    let sock = self.sock.clone().unwrap();
                    let out = if self.via_client {
                        use crate::httpx::HOut;
                        let o = self.client_call(crate::exec::ClientOp::Get { id: id_str(id) });
                        match Self::client_frame(o, "get") {
                            HOut::Ok(f) => HOut::Ok(Some(f)),
                            // (the library reports 404 as an error like every non-200 answer)
                            HOut::Status(404, _) => HOut::Ok(None),
                            HOut::Status(s, b) => HOut::Status(s, b),
                            HOut::Broken(m) => HOut::Broken(m),
                            HOut::Infra(m) => HOut::Infra(m),
                        }
                    } else {
                        crate::httpx::get(&sock, id)
                    };
                    let r = self.http(out)?;
                    must("GET /<id>", r)?
                } else {
                    must("get", self.ex().get(id))?
                };
                self.model.check_get("get", id, got.as_ref())?;
                self.checks += 1;
            }
            Op::Head { topic, ctx } => {
                let c = self.resolve_ctx(ctx);
                if topic.as_bytes().contains(&0) {
                    // a NUL topic cannot exist; head must simply find nothing
                    let got = must("head", self.ex().head(topic, c))?;
                    // (a prefix scan with an embedded delimiter may legitimately match
                    // nothing; anything it returns must at least carry that topic)
                    if let Some(w) = got {
                        if w.topic != *topic {
                            return Err(Fail::new(
                                Class::Head,
                                format!("head({topic:?}) returned a frame of topic {:?}", w.topic),
                            ));
                        }
                    }
                } else {
                    let got = if self.use_http(Some(topic)) {
                        let sock = self.sock.clone().unwrap();
                        let out = crate::httpx::head(&sock, topic, c, topic.len() % 2 == 0);
                        let r = self.http(out)?;
                        must("GET /head/<topic>", r)?
                    } else {
                        must("head", self.ex().head(topic, c))?
                    };
                    self.model.check_head("head", topic, c, got.as_ref())?;
                }
                self.checks += 1;
            }
        }
        Ok(())
    }

    pub fn finish(mut self) {
        if let Some(e) = self.exec.take() {
            e.kill();
        }
    }

    pub fn finish_ref(&mut self) {
        if let Some(e) = self.exec.take() {
            e.kill();
        }
    }
}

/// Run the ops of a history and settle; the interpreter (executor still running)
/// is handed back for further use (C20 exports from it).
pub fn run_history_keep(case: &HistCase) -> Result<Interp, Fail> {
    let mut it = Interp::start_with(case.layout, case.follower, case.access)?;
    it.via_client = case.client && case.access == Access::Http;
    must("clock", it.ex().clock(Some(0)))?;
    for _ in 0..case.n_ctx {
        it.step(&Op::Register { ttl: None })?;
    }
    for (i, op) in case.ops.iter().enumerate() {
        if let Err(mut f) = it.step(op) {
            f.msg = format!("source op #{i} {}: {}", op.kind(), f.msg);
            it.finish_ref();
            return Err(f);
        }
    }
    if let Err(mut f) = it.observe_all("source") {
        f.msg = format!("source observation: {}", f.msg);
        it.finish_ref();
        return Err(f);
    }
    Ok(it)
}

/// Run one generated history. `Ok(info)` = every oracle held.
pub fn run_history(case: &HistCase) -> Result<(CaseInfo, Flags), Fail> {
    let mut it = Interp::start_with(case.layout, case.follower, case.access)?;
    it.via_client = case.client && case.access == Access::Http;
    must("clock", it.ex().clock(Some(0)))?;
    for _ in 0..case.n_ctx {
        it.step(&Op::Register { ttl: None })?;
    }
    for (i, op) in case.ops.iter().enumerate() {
        let r = it.step(op);
        if let Err(mut f) = r {
            f.msg = format!("op #{i} {}: {}", op.kind(), f.msg);
            it.finish();
            return Err(f);
        }
        if case.eager && !matches!(op, Op::Reopen) {
            if let Err(mut f) = it.stream_read(ReadPath::Sync, None, None, None) {
                f.msg = format!("after op #{i} {}: {}", op.kind(), f.msg);
                it.finish();
                return Err(f);
            }
        }
    }
    if let Err(mut f) = it.observe_all("final") {
        f.msg = format!("final observation: {}", f.msg);
        it.finish();
        return Err(f);
    }
    // reopen once more: the same observations must hold on the reopened store
    let r = it.reopen().and_then(|_| it.observe_all("after reopen"));
    if let Err(mut f) = r {
        f.msg = format!("after final reopen: {}", f.msg);
        it.finish();
        return Err(f);
    }
    let kinds: Vec<&str> = case.ops.iter().map(|o| o.kind()).collect();
    let shape = hash64(
        format!("{:?}|{:?}|{}|{:?}", case.layout, case.access, case.n_ctx, kinds).as_bytes(),
    );
    let mut labels = Vec::new();
    // which operation kinds the case contains (cases, not occurrences, are counted)
    let kinds: BTreeSet<&'static str> = case.ops.iter().map(|o| o.kind()).collect();
    for k in kinds {
        labels.push(format!("op:{k}"));
    }
    let fl = &it.flags;
    for (on, name) in [
        (fl.had_remove, "remove"),
        (fl.had_expiry, "expiry-observed"),
        (fl.had_import, "import"),
        (fl.had_eviction, "gc-removed-something"),
        (fl.had_reopen, "reopen-in-history"),
        (fl.deferred_drain, "kill-with-gc-pending"),
        (case.layout == Layout::SmallMem, "layout-small-memtable"),
        (case.eager, "eager-reads"),
        (case.follower, "tail-follower"),
        (fl.rejected_appends > 0, "rejected-append"),
        (fl.nul_rejected > 0, "nul-rejected"),
        (fl.gc_removed_with_neighbour, "gc-with-neighbour-topic"),
        (fl.http_follower, "http-follow-stream"),
        (fl.refused_import_over_stored, "refused-import-over-stored-id"),
        (fl.via_client, "through-xs-client-library"),
        (fl.registration_amended, "registration-frame-re-imported-with-other-meta"),
        (fl.import_moved, "import-over-stored-id-changes-topic-or-context"),
        (it.model.fuzzy_checks > 0, "had-three-valued-check"),
    ] {
        if on {
            labels.push(name.to_string());
        }
    }
    let info = CaseInfo {
        nontrivial: false,
        shape,
        labels,
        known: it.known_hits.clone(),
        checks: it.checks,
    };
    let flags = it.flags.clone();
    it.finish();
    Ok((info, flags))
}
