//! Minimal blocking HTTP/1.1 client over a unix socket, written by hand so that
//! malformed requests can be sent and so that "no response at all" is an
//! observable outcome rather than a client-library error.

use std::io::{Read, Write};
use std::os::unix::net::UnixStream;
use std::path::Path;
use std::time::{Duration, Instant};

#[derive(Clone, Debug, PartialEq)]
pub enum Body {
    None,
    /// Content-Length framed
    Len(Vec<u8>),
    /// Transfer-Encoding: chunked with the given chunk size
    Chunked(Vec<u8>, usize),
}

#[derive(Clone, Debug)]
pub struct Req {
    pub method: String,
    /// path and query exactly as they go on the request line
    pub target: String,
    /// raw header lines (name, value bytes)
    pub headers: Vec<(String, Vec<u8>)>,
    pub body: Body,
    pub close: bool,
}

impl Req {
    pub fn new(method: &str, target: &str) -> Req {
        Req {
            method: method.to_string(),
            target: target.to_string(),
            headers: Vec::new(),
            body: Body::None,
            close: true,
        }
    }
    pub fn header(mut self, k: &str, v: &[u8]) -> Req {
        self.headers.push((k.to_string(), v.to_vec()));
        self
    }
    pub fn body(mut self, b: Body) -> Req {
        self.body = b;
        self
    }
    pub fn to_bytes(&self) -> Vec<u8> {
        let mut out = Vec::new();
        out.extend_from_slice(format!("{} {} HTTP/1.1\r\n", self.method, self.target).as_bytes());
        out.extend_from_slice(b"Host: localhost\r\n");
        for (k, v) in &self.headers {
            out.extend_from_slice(k.as_bytes());
            out.extend_from_slice(b": ");
            out.extend_from_slice(v);
            out.extend_from_slice(b"\r\n");
        }
        if self.close {
            out.extend_from_slice(b"Connection: close\r\n");
        }
        match &self.body {
            Body::None => out.extend_from_slice(b"\r\n"),
            Body::Len(b) => {
                out.extend_from_slice(format!("Content-Length: {}\r\n\r\n", b.len()).as_bytes());
                out.extend_from_slice(b);
            }
            Body::Chunked(b, n) => {
                out.extend_from_slice(b"Transfer-Encoding: chunked\r\n\r\n");
                for chunk in b.chunks((*n).max(1)) {
                    out.extend_from_slice(format!("{:x}\r\n", chunk.len()).as_bytes());
                    out.extend_from_slice(chunk);
                    out.extend_from_slice(b"\r\n");
                }
                out.extend_from_slice(b"0\r\n\r\n");
            }
        }
        out
    }
}

#[derive(Clone, Debug)]
pub struct Resp {
    pub status: u16,
    pub headers: Vec<(String, String)>,
    pub body: Vec<u8>,
    /// the body was received completely (terminating chunk / content-length / EOF)
    pub complete: bool,
}

impl Resp {
    pub fn header(&self, name: &str) -> Option<&str> {
        self.headers
            .iter()
            .find(|(k, _)| k.eq_ignore_ascii_case(name))
            .map(|(_, v)| v.as_str())
    }
    pub fn text(&self) -> String {
        String::from_utf8_lossy(&self.body).to_string()
    }
}

#[derive(Clone, Debug, PartialEq)]
pub enum HttpErr {
    /// could not connect to the socket at all (infrastructure)
    Connect(String),
    /// the connection was closed (or reset) before a status line arrived
    NoResponse(String),
    /// nothing arrived within the time limit
    Timeout,
    /// bytes arrived that are not an HTTP response
    Malformed(String),
}

fn find(hay: &[u8], needle: &[u8]) -> Option<usize> {
    hay.windows(needle.len()).position(|w| w == needle)
}

/// Incremental response parser.
pub struct Conn {
    pub stream: UnixStream,
    buf: Vec<u8>,
}

enum Framing {
    Len(usize),
    Chunked,
    Eof,
    NoBody,
}

impl Conn {
    pub fn open(sock: &Path) -> Result<Conn, HttpErr> {
        let stream = UnixStream::connect(sock).map_err(|e| HttpErr::Connect(e.to_string()))?;
        Ok(Conn {
            stream,
            buf: Vec::new(),
        })
    }

    pub fn send(&mut self, bytes: &[u8]) -> Result<(), HttpErr> {
        // the server may answer and close before it has read a large body: a write
        // error is not by itself "no response"
        let _ = self.stream.write_all(bytes);
        let _ = self.stream.flush();
        Ok(())
    }

    fn fill(&mut self, deadline: Instant) -> Result<usize, HttpErr> {
        let now = Instant::now();
        if now >= deadline {
            return Err(HttpErr::Timeout);
        }
        self.stream
            .set_read_timeout(Some(deadline - now))
            .map_err(|e| HttpErr::Connect(e.to_string()))?;
        let mut tmp = [0u8; 16384];
        match self.stream.read(&mut tmp) {
            Ok(0) => Ok(0),
            Ok(n) => {
                self.buf.extend_from_slice(&tmp[..n]);
                Ok(n)
            }
            Err(e)
                if e.kind() == std::io::ErrorKind::WouldBlock
                    || e.kind() == std::io::ErrorKind::TimedOut =>
            {
                Err(HttpErr::Timeout)
            }
            Err(e) => {
                // connection reset counts as EOF for our purposes
                let _ = e;
                Ok(0)
            }
        }
    }

    /// Read the status line and headers.
    pub fn read_head(&mut self, deadline: Instant) -> Result<(u16, Vec<(String, String)>), HttpErr> {
        loop {
            if let Some(pos) = find(&self.buf, b"\r\n\r\n") {
                let head = String::from_utf8_lossy(&self.buf[..pos]).to_string();
                self.buf.drain(..pos + 4);
                let mut lines = head.split("\r\n");
                let status_line = lines.next().unwrap_or("");
                let mut parts = status_line.splitn(3, ' ');
                let ver = parts.next().unwrap_or("");
                let code = parts.next().unwrap_or("");
                if !ver.starts_with("HTTP/1.") {
                    return Err(HttpErr::Malformed(format!("status line {status_line:?}")));
                }
                let status: u16 = code
                    .parse()
                    .map_err(|_| HttpErr::Malformed(format!("status line {status_line:?}")))?;
                let headers = lines
                    .filter_map(|l| {
                        l.split_once(':')
                            .map(|(k, v)| (k.trim().to_string(), v.trim().to_string()))
                    })
                    .collect();
                return Ok((status, headers));
            }
            match self.fill(deadline) {
                Ok(0) => {
                    return Err(if self.buf.is_empty() {
                        HttpErr::NoResponse("connection closed without a response".into())
                    } else {
                        HttpErr::Malformed(format!(
                            "connection closed inside the response head: {:?}",
                            String::from_utf8_lossy(&self.buf)
                        ))
                    })
                }
                Ok(_) => {}
                Err(e) => return Err(e),
            }
        }
    }

    fn framing(status: u16, method_head: bool, headers: &[(String, String)]) -> Framing {
        if method_head || status == 204 || status == 304 || (100..200).contains(&status) {
            return Framing::NoBody;
        }
        for (k, v) in headers {
            if k.eq_ignore_ascii_case("transfer-encoding") && v.to_ascii_lowercase().contains("chunked") {
                return Framing::Chunked;
            }
        }
        for (k, v) in headers {
            if k.eq_ignore_ascii_case("content-length") {
                if let Ok(n) = v.parse::<usize>() {
                    return Framing::Len(n);
                }
            }
        }
        Framing::Eof
    }

    /// Try to take one complete chunk out of the buffer. Ok(Some(empty)) = the
    /// terminating chunk.
    fn take_chunk(&mut self) -> Result<Option<Vec<u8>>, HttpErr> {
        let Some(pos) = find(&self.buf, b"\r\n") else {
            return Ok(None);
        };
        let size_line = String::from_utf8_lossy(&self.buf[..pos]).to_string();
        let size_hex = size_line.split(';').next().unwrap_or("").trim();
        let size = usize::from_str_radix(size_hex, 16)
            .map_err(|_| HttpErr::Malformed(format!("chunk size {size_line:?}")))?;
        let need = pos + 2 + size + 2;
        if self.buf.len() < need {
            return Ok(None);
        }
        let data = self.buf[pos + 2..pos + 2 + size].to_vec();
        self.buf.drain(..need);
        Ok(Some(data))
    }

    /// Read one whole response (bounded by `timeout`). For a streaming body that
    /// does not end in time, returns what arrived with `complete=false`.
    pub fn read_response(&mut self, timeout: Duration) -> Result<Resp, HttpErr> {
        let deadline = Instant::now() + timeout;
        let (status, headers) = self.read_head(deadline)?;
        let mut body = Vec::new();
        let mut complete = false;
        match Self::framing(status, false, &headers) {
            Framing::NoBody => complete = true,
            Framing::Len(n) => loop {
                if self.buf.len() >= n {
                    body = self.buf.drain(..n).collect();
                    complete = true;
                    break;
                }
                match self.fill(deadline) {
                    Ok(0) | Err(_) => {
                        body = std::mem::take(&mut self.buf);
                        break;
                    }
                    Ok(_) => {}
                }
            },
            Framing::Chunked => loop {
                match self.take_chunk()? {
                    Some(c) if c.is_empty() => {
                        complete = true;
                        break;
                    }
                    Some(c) => body.extend_from_slice(&c),
                    None => match self.fill(deadline) {
                        Ok(0) | Err(_) => break,
                        Ok(_) => {}
                    },
                }
            },
            Framing::Eof => loop {
                match self.fill(deadline) {
                    Ok(0) => {
                        body = std::mem::take(&mut self.buf);
                        complete = true;
                        break;
                    }
                    Err(_) => {
                        body = std::mem::take(&mut self.buf);
                        break;
                    }
                    Ok(_) => {}
                }
            },
        }
        Ok(Resp {
            status,
            headers,
            body,
            complete,
        })
    }

    /// For streaming (follow) responses after `read_head`: collect body bytes that
    /// arrive until `until` says stop or `timeout` passes. Returns (bytes, ended).
    pub fn read_stream(
        &mut self,
        chunked: bool,
        timeout: Duration,
        mut until: impl FnMut(&[u8]) -> bool,
        acc: &mut Vec<u8>,
    ) -> Result<bool, HttpErr> {
        let deadline = Instant::now() + timeout;
        loop {
            if chunked {
                while let Some(c) = self.take_chunk()? {
                    if c.is_empty() {
                        return Ok(true);
                    }
                    acc.extend_from_slice(&c);
                }
            } else {
                acc.append(&mut self.buf);
            }
            if until(acc) {
                return Ok(false);
            }
            match self.fill(deadline) {
                Ok(0) => return Ok(true),
                Ok(_) => {}
                Err(HttpErr::Timeout) => return Ok(false),
                Err(e) => return Err(e),
            }
        }
    }
}

pub fn is_chunked(headers: &[(String, String)]) -> bool {
    headers.iter().any(|(k, v)| {
        k.eq_ignore_ascii_case("transfer-encoding") && v.to_ascii_lowercase().contains("chunked")
    })
}

/// One request on a fresh connection.
pub fn roundtrip(sock: &Path, req: &Req, timeout: Duration) -> Result<Resp, HttpErr> {
    let mut c = Conn::open(sock)?;
    c.send(&req.to_bytes())?;
    c.read_response(timeout)
}

/// Raw bytes on a fresh connection (for malformed requests).
pub fn roundtrip_raw(sock: &Path, bytes: &[u8], timeout: Duration) -> Result<Resp, HttpErr> {
    let mut c = Conn::open(sock)?;
    c.send(bytes)?;
    c.read_response(timeout)
}

pub fn pct_encode_query(s: &str) -> String {
    let mut out = String::new();
    for b in s.bytes() {
        match b {
            b'A'..=b'Z' | b'a'..=b'z' | b'0'..=b'9' | b'-' | b'.' | b'_' | b'~' | b':' => {
                out.push(b as char)
            }
            _ => out.push_str(&format!("%{:02X}", b)),
        }
    }
    out
}
