//! Store operations issued through the HTTP API (the same operations the
//! executor's control channel offers), decoded without xs's own client or serde
//! impls.

use std::path::Path;
use std::time::Duration;

use crate::http::*;
use crate::wire::*;

/// (a response normally takes well under a millisecond; under heavy machine load a request was once
/// seen to take more than 20 s, so silence only counts after 90 s)
pub const T: Duration = Duration::from_secs(90);

/// Outcome of an HTTP-level operation.
#[derive(Clone, Debug)]
pub enum HOut<V> {
    /// 2xx with a decodable result
    Ok(V),
    /// a well-formed error response
    Status(u16, String),
    /// no (or no well-formed) response: always a C13 violation
    Broken(String),
    /// could not connect: infrastructure
    Infra(String),
}

fn classify<V>(r: Result<Resp, HttpErr>, f: impl FnOnce(Resp) -> HOut<V>) -> HOut<V> {
    match r {
        Ok(resp) => f(resp),
        Err(HttpErr::Connect(e)) => HOut::Infra(e),
        Err(HttpErr::NoResponse(e)) => HOut::Broken(format!("no response: {e}")),
        Err(HttpErr::Timeout) => HOut::Broken("no response within 90 s".into()),
        Err(HttpErr::Malformed(e)) => HOut::Broken(format!("malformed response: {e}")),
    }
}

pub fn topic_is_url_safe(t: &str) -> bool {
    t.bytes()
        .all(|b| b.is_ascii_alphanumeric() || matches!(b, b'.' | b'_' | b'~' | b'-' | b'/'))
        && !t.starts_with('/')
        && t != "cas"
        && t != "import"
        && !t.starts_with("cas/")
}

fn frame_from_body(resp: &Resp) -> Result<WFrame, String> {
    let v = parse_json_deep(&resp.body).map_err(|e| format!("body is not JSON: {e}"))?;
    wframe_from_json(&v)
}

#[derive(Clone, Debug, Default)]
pub struct AppendHow {
    /// send the body chunked with this chunk size instead of Content-Length
    pub chunked: Option<usize>,
    /// write the request in two parts, pausing after this many body bytes have gone out
    pub split_at: Option<usize>,
    /// send `context=` even for the zero context
    pub explicit_zero_ctx: bool,
    /// write `context=` before `ttl=` in the query string (parameters have no order)
    pub ctx_first: bool,
}

pub fn append_query(spec: &FrameSpec, how: &AppendHow) -> String {
    let mut q = Vec::new();
    if let Some(t) = &spec.ttl {
        q.push(format!("ttl={}", pct_encode_query(&t.spelling())));
    }
    if spec.ctx != 0 || how.explicit_zero_ctx {
        q.push(format!("context={}", id_str(spec.ctx)));
    }
    if how.ctx_first {
        q.reverse();
    }
    if q.is_empty() {
        String::new()
    } else {
        format!("?{}", q.join("&"))
    }
}

pub fn append_req(spec: &FrameSpec, content: Option<&[u8]>, how: &AppendHow) -> Req {
    let mut req = Req::new("POST", &format!("/{}{}", spec.topic, append_query(spec, how)));
    if let Some(m) = &spec.meta {
        req = req.header("xs-meta", b64(print_json(&m.to_json()).as_bytes()).as_bytes());
    }
    match content {
        None => req.body(Body::Len(Vec::new())),
        Some(c) => match how.chunked {
            Some(n) => req.body(Body::Chunked(c.to_vec(), n)),
            None => req.body(Body::Len(c.to_vec())),
        },
    }
}

/// One request on a fresh connection, written in two parts with a pause in between
/// (so that the body reaches the server in more than one read).
pub fn roundtrip_split(sock: &Path, req: &Req, body_split_at: usize, pause: Duration) -> Result<Resp, HttpErr> {
    let bytes = req.to_bytes();
    let body_len = match &req.body {
        Body::Len(b) => b.len(),
        _ => 0,
    };
    let cut = bytes.len() - body_len + body_split_at.min(body_len);
    let mut c = Conn::open(sock)?;
    c.send(&bytes[..cut])?;
    std::thread::sleep(pause);
    c.send(&bytes[cut..])?;
    c.read_response(T)
}

pub fn append(sock: &Path, spec: &FrameSpec, content: Option<&[u8]>, how: &AppendHow) -> HOut<WFrame> {
    let req = append_req(spec, content, how);
    let res = match (how.split_at, how.chunked) {
        (Some(at), None) if content.map(|c| c.len() > 1).unwrap_or(false) => {
            roundtrip_split(sock, &req, at, Duration::from_millis(15))
        }
        _ => roundtrip(sock, &req, T),
    };
    classify(res, |resp| {
        if resp.status == 200 {
            match frame_from_body(&resp) {
                Ok(f) => HOut::Ok(f),
                Err(e) => HOut::Broken(format!("POST /{}: 200 but {e}", spec.topic)),
            }
        } else {
            HOut::Status(resp.status, resp.text())
        }
    })
}

pub fn import(sock: &Path, spec: &FrameSpec) -> HOut<WFrame> {
    let body = frame_json_for_import(spec);
    let req = Req::new("POST", "/import").body(Body::Len(body.into_bytes()));
    classify(roundtrip(sock, &req, T), |resp| {
        if resp.status == 200 {
            match frame_from_body(&resp) {
                Ok(f) => HOut::Ok(f),
                Err(e) => HOut::Broken(format!("POST /import: 200 but {e}")),
            }
        } else {
            HOut::Status(resp.status, resp.text())
        }
    })
}

pub fn remove(sock: &Path, id: u128) -> HOut<()> {
    let req = Req::new("DELETE", &format!("/{}", id_str(id)));
    classify(roundtrip(sock, &req, T), |resp| {
        if resp.status == 204 || resp.status == 200 {
            HOut::Ok(())
        } else {
            HOut::Status(resp.status, resp.text())
        }
    })
}

pub fn get(sock: &Path, id: u128) -> HOut<Option<WFrame>> {
    let req = Req::new("GET", &format!("/{}", id_str(id)));
    classify(roundtrip(sock, &req, T), |resp| match resp.status {
        200 => match frame_from_body(&resp) {
            Ok(f) => HOut::Ok(Some(f)),
            Err(e) => HOut::Broken(format!("GET /<id>: 200 but {e}")),
        },
        404 => HOut::Ok(None),
        s => HOut::Status(s, resp.text()),
    })
}

pub fn head(sock: &Path, topic: &str, ctx: u128, explicit_zero: bool) -> HOut<Option<WFrame>> {
    let q = if ctx != 0 || explicit_zero {
        format!("?context={}", id_str(ctx))
    } else {
        String::new()
    };
    let req = Req::new("GET", &format!("/head/{topic}{q}"));
    classify(roundtrip(sock, &req, T), |resp| match resp.status {
        200 => match frame_from_body(&resp) {
            Ok(f) => HOut::Ok(Some(f)),
            Err(e) => HOut::Broken(format!("GET /head: 200 but {e}")),
        },
        404 => HOut::Ok(None),
        s => HOut::Status(s, resp.text()),
    })
}

pub fn read_query(opts: &ROpts) -> String {
    read_query_spelled(opts, false)
}

/// `bare`: switches are written as bare flags (`?follow&tail`), the other accepted spelling.
pub fn read_query_spelled(opts: &ROpts, bare: bool) -> String {
    let mut q = Vec::new();
    match opts.follow {
        None => {}
        Some(0) => q.push(if bare { "follow".to_string() } else { "follow=true".to_string() }),
        Some(n) => q.push(format!("follow={n}")),
    }
    if opts.tail {
        q.push(if bare { "tail".to_string() } else { "tail=true".to_string() });
    }
    if let Some(l) = opts.last_id {
        q.push(format!("last-id={}", id_str(l)));
    }
    if let Some(l) = opts.limit {
        q.push(format!("limit={l}"));
    }
    if let Some(c) = opts.ctx {
        q.push(format!("context-id={}", id_str(c)));
    }
    if q.is_empty() {
        String::new()
    } else {
        format!("?{}", q.join("&"))
    }
}

pub fn parse_ndjson(body: &[u8]) -> Result<Vec<WFrame>, String> {
    let text = std::str::from_utf8(body).map_err(|e| format!("NDJSON body not UTF-8: {e}"))?;
    let mut out = Vec::new();
    for line in text.split('\n') {
        if line.is_empty() {
            continue;
        }
        let v = parse_json_deep(line.as_bytes()).map_err(|e| format!("NDJSON line {line:?}: {e}"))?;
        out.push(wframe_from_json(&v)?);
    }
    if !text.is_empty() && !text.ends_with('\n') {
        return Err("NDJSON body does not end with a newline".into());
    }
    Ok(out)
}

/// `id: <id>\ndata: <json>\n\n` per frame, nothing else.
pub fn parse_sse(body: &[u8]) -> Result<Vec<WFrame>, String> {
    let text = std::str::from_utf8(body).map_err(|e| format!("SSE body not UTF-8: {e}"))?;
    let mut out = Vec::new();
    let mut rest = text;
    while !rest.is_empty() {
        let Some(end) = rest.find("\n\n") else {
            return Err(format!("SSE event not terminated: {rest:?}"));
        };
        let ev = &rest[..end];
        rest = &rest[end + 2..];
        let mut lines = ev.split('\n');
        let l1 = lines.next().unwrap_or("");
        let l2 = lines.next().unwrap_or("");
        if lines.next().is_some() {
            return Err(format!("SSE event has more than two lines: {ev:?}"));
        }
        let id = l1
            .strip_prefix("id: ")
            .ok_or(format!("SSE event does not start with `id: `: {ev:?}"))?;
        let data = l2
            .strip_prefix("data: ")
            .ok_or(format!("SSE event lacks `data: `: {ev:?}"))?;
        let v = parse_json_deep(data.as_bytes()).map_err(|e| format!("SSE data {data:?}: {e}"))?;
        let f = wframe_from_json(&v)?;
        if f.id != id {
            return Err(format!("SSE id field {id:?} differs from the frame's id {}", f.id));
        }
        out.push(f);
    }
    Ok(out)
}

/// Non-following `GET /`.
pub fn read(sock: &Path, opts: &ROpts, sse: bool) -> HOut<Vec<WFrame>> {
    // a switch that is off may also be spelled out (`tail=0`, `tail=false`, `tail=no`)
    let mut q = read_query(opts);
    if !opts.tail {
        let off = match opts.limit.unwrap_or(0) % 4 {
            1 => Some("tail=0"),
            2 => Some("tail=false"),
            3 => Some("tail=no"),
            _ => None,
        };
        if let Some(off) = off {
            q = if q.is_empty() { format!("?{off}") } else { format!("{q}&{off}") };
        }
    }
    let mut req = Req::new("GET", &format!("/{q}"));
    if sse {
        req = req.header("Accept", b"text/event-stream");
    }
    classify(roundtrip(sock, &req, T), |resp| {
        if resp.status != 200 {
            return HOut::Status(resp.status, resp.text());
        }
        if !resp.complete {
            return HOut::Broken("GET /: body did not end".into());
        }
        let want_ct = if sse {
            "text/event-stream"
        } else {
            "application/x-ndjson"
        };
        if resp.header("content-type") != Some(want_ct) {
            return HOut::Broken(format!(
                "GET /: content-type {:?}, expected {want_ct}",
                resp.header("content-type")
            ));
        }
        let parsed = if sse {
            parse_sse(&resp.body)
        } else {
            parse_ndjson(&resp.body)
        };
        match parsed {
            Ok(v) => HOut::Ok(v),
            Err(e) => HOut::Broken(format!("GET /: {e}")),
        }
    })
}

pub fn cas_post(sock: &Path, content: &[u8], chunked: Option<usize>) -> HOut<String> {
    let body = match chunked {
        Some(n) => Body::Chunked(content.to_vec(), n),
        None => Body::Len(content.to_vec()),
    };
    let req = Req::new("POST", "/cas").body(body);
    classify(roundtrip(sock, &req, T), |resp| {
        if resp.status == 200 {
            HOut::Ok(resp.text())
        } else {
            HOut::Status(resp.status, resp.text())
        }
    })
}

pub fn cas_get(sock: &Path, hash: &str) -> HOut<Option<Vec<u8>>> {
    let req = Req::new("GET", &format!("/cas/{hash}"));
    classify(roundtrip(sock, &req, T), |resp| match resp.status {
        200 => {
            if resp.complete {
                HOut::Ok(Some(resp.body))
            } else {
                HOut::Broken("GET /cas: body did not end".into())
            }
        }
        404 => HOut::Ok(None),
        s => HOut::Status(s, resp.text()),
    })
}

pub fn version(sock: &Path) -> HOut<String> {
    let req = Req::new("GET", "/version");
    classify(roundtrip(sock, &req, T), |resp| {
        if resp.status == 200 {
            HOut::Ok(resp.text())
        } else {
            HOut::Status(resp.status, resp.text())
        }
    })
}

// ---------------------------------------------------------------------------------
// A following `GET /` consumed incrementally by a reader thread of the driver.

#[derive(Default)]
pub struct HfState {
    pub frames: Vec<WFrame>,
    pub closed: bool,
    pub error: Option<String>,
}

pub struct HttpFollower {
    pub sse: bool,
    pub state: std::sync::Arc<std::sync::Mutex<HfState>>,
    stop: std::sync::Arc<std::sync::atomic::AtomicBool>,
}

impl Drop for HttpFollower {
    fn drop(&mut self) {
        self.stop.store(true, std::sync::atomic::Ordering::SeqCst);
    }
}

/// Take the complete units (NDJSON lines / SSE events) off the front of `acc`.
fn take_units(acc: &mut Vec<u8>, sse: bool) -> Result<Vec<WFrame>, String> {
    let sep: &[u8] = if sse { b"\n\n" } else { b"\n" };
    let mut end = 0;
    let mut i = 0;
    while i + sep.len() <= acc.len() {
        if &acc[i..i + sep.len()] == sep {
            end = i + sep.len();
            i = end;
        } else {
            i += 1;
        }
    }
    if end == 0 {
        return Ok(vec![]);
    }
    let whole: Vec<u8> = acc.drain(..end).collect();
    if sse {
        parse_sse(&whole)
    } else {
        parse_ndjson(&whole)
    }
}

/// Returns once the response head (200) has arrived: the server subscribes before it answers.
pub fn follow_start(sock: &Path, opts: &ROpts, sse: bool) -> Result<HttpFollower, String> {
    follow_start_spelled(sock, opts, sse, false)
}

pub fn follow_start_spelled(sock: &Path, opts: &ROpts, sse: bool, bare: bool) -> Result<HttpFollower, String> {
    use std::sync::atomic::Ordering;
    let target = format!("/{}", read_query_spelled(opts, bare));
    let mut req = Req::new("GET", &target);
    if sse {
        req = req.header("Accept", b"text/event-stream");
    }
    let mut conn = Conn::open(sock).map_err(|e| format!("GET {target}: {e:?}"))?;
    conn.send(&req.to_bytes()).ok();
    let (status, headers) = conn
        .read_head(std::time::Instant::now() + Duration::from_secs(20))
        .map_err(|e| format!("GET {target}: {e:?}"))?;
    if status != 200 {
        return Err(format!("GET {target} answered {status}"));
    }
    let want_ct = if sse { "text/event-stream" } else { "application/x-ndjson" };
    let ct = headers
        .iter()
        .find(|(k, _)| k.eq_ignore_ascii_case("content-type"))
        .map(|(_, v)| v.as_str());
    if ct != Some(want_ct) {
        return Err(format!("GET {target}: content-type {ct:?}, expected {want_ct}"));
    }
    let chunked = is_chunked(&headers);
    let state = std::sync::Arc::new(std::sync::Mutex::new(HfState::default()));
    let stop = std::sync::Arc::new(std::sync::atomic::AtomicBool::new(false));
    let (st, sp) = (state.clone(), stop.clone());
    std::thread::spawn(move || {
        let mut acc = Vec::new();
        loop {
            if sp.load(Ordering::SeqCst) {
                return;
            }
            let ended = match conn.read_stream(chunked, Duration::from_millis(20), |_| false, &mut acc) {
                Ok(e) => e,
                Err(e) => {
                    let mut s = st.lock().unwrap();
                    if !sp.load(Ordering::SeqCst) {
                        s.error = Some(format!("stream broke: {e:?}"));
                    }
                    s.closed = true;
                    return;
                }
            };
            match take_units(&mut acc, sse) {
                Ok(mut v) => st.lock().unwrap().frames.append(&mut v),
                Err(e) => {
                    let mut s = st.lock().unwrap();
                    s.error = Some(e);
                    s.closed = true;
                    return;
                }
            }
            if ended {
                let mut s = st.lock().unwrap();
                if !acc.is_empty() {
                    s.error = Some(format!("stream ended inside a unit: {:?}", String::from_utf8_lossy(&acc)));
                }
                s.closed = true;
                return;
            }
        }
    });
    Ok(HttpFollower { sse, state, stop })
}

impl HttpFollower {
    /// (frames so far, closed, error)
    pub fn poll(&self) -> (Vec<WFrame>, bool, Option<String>) {
        let s = self.state.lock().unwrap();
        (s.frames.clone(), s.closed, s.error.clone())
    }
}
