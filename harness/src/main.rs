mod client;
mod director;
mod exec;
mod gen;
mod hist;
mod http;
mod httpx;
mod model;
mod nu;
mod props;
mod runner;
mod wire;

use runner::Tier;

fn usage() -> ! {
    eprintln!("usage: xsverif check <ID> [quick|thorough] [--replay <file>] | xsverif exec <dir> ...");
    std::process::exit(2)
}

fn main() {
    let args: Vec<String> = std::env::args().skip(1).collect();
    match args.first().map(|s| s.as_str()) {
        Some("exec") => std::process::exit(exec::main_exec(&args[1..])),
        Some("check") => {
            let id = args.get(1).cloned().unwrap_or_else(|| usage());
            let mut tier = match std::env::var("VERIF_TIER").ok().as_deref() {
                Some("thorough") => Tier::Thorough,
                _ => Tier::Quick,
            };
            let mut replay = None;
            let mut i = 2;
            while i < args.len() {
                match args[i].as_str() {
                    "quick" => tier = Tier::Quick,
                    "thorough" => tier = Tier::Thorough,
                    "--replay" => {
                        replay = args.get(i + 1).map(std::path::PathBuf::from);
                        i += 1;
                    }
                    _ => usage(),
                }
                i += 1;
            }
            let seed = std::env::var("VERIF_SEED")
                .ok()
                .and_then(|s| s.trim().parse::<i64>().ok())
                .map(|v| v as u64)
                .unwrap_or(0);
            let code = match id.as_str() {
                "C01" | "C05" | "C07" | "C08" | "C09" | "C13" => {
                    props::histprops::run(&id, tier, seed, replay.as_deref())
                }
                "C02" => props::c02::run(tier, seed, replay.as_deref()),
                "C03" => props::c03::run(tier, seed, replay.as_deref()),
                "C04" => props::c04::run(tier, seed, replay.as_deref()),
                "C06" => props::c06::run(tier, seed, replay.as_deref()),
                "C10" => props::c10::run(tier, seed, replay.as_deref()),
                "C11" => props::c11::run(tier, seed, replay.as_deref()),
                "C12" => props::c12::run(tier, seed, replay.as_deref()),
                "C14" => props::c14::run(tier, seed, replay.as_deref()),
                "C15" => props::c15::run(tier, seed, replay.as_deref()),
                "C16" => props::c16::run(tier, seed, replay.as_deref()),
                "C17" => props::c17::run(tier, seed, replay.as_deref()),
                "C18" => props::c18::run(tier, seed, replay.as_deref()),
                "C19" => props::c19::run(tier, seed, replay.as_deref()),
                "C20" => props::c20::run(tier, seed, replay.as_deref()),
                _ => {
                    eprintln!("no check for {id}");
                    2
                }
            };
            // scratch directories of this process
            let _ = std::fs::remove_dir_all(client::scratch_root());
            std::process::exit(code)
        }
        _ => usage(),
    }
}
