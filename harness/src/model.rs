//! Reference model of the store (DESIGN section 5).
//!
//! One ordered map of frames plus the virtual clock. Retention that xs performs
//! asynchronously (lazy expiry collected by the GC thread, head:K eviction
//! evaluated some time after the append) is modelled three-valued: a frame is
//! `Present`, `Maybe` or gone (not in the map). Written from the property
//! statements and the reference docs, not from the implementation's key layout:
//! every query is a filter over the one map.

use std::collections::{BTreeMap, BTreeSet};

use crate::wire::*;

pub const ZERO: u128 = 0;

#[derive(Clone, Copy, PartialEq, Eq, Debug)]
pub enum Presence {
    Present,
    Maybe,
}

#[derive(Clone, Copy, PartialEq, Eq, Debug)]
pub enum Origin {
    Append,
    Import,
}

#[derive(Clone, Debug)]
pub struct MFrame {
    pub id: u128,
    pub topic: String,
    pub ctx: u128,
    pub hash: Option<String>,
    pub meta: Option<String>,
    pub ttl: Option<WTtl>,
    pub origin: Origin,
    pub presence: Presence,
    /// a GC `Remove` has (Some(true)) or may have (Some(false)) been queued for it
    pub pending_remove: Option<bool>,
}

impl MFrame {
    pub fn same_fields(&self, w: &WFrame) -> Result<(), String> {
        let mut diffs = Vec::new();
        if w.topic != self.topic {
            diffs.push(format!("topic {:?} != {:?}", w.topic, self.topic));
        }
        if w.ctx128() != self.ctx {
            diffs.push(format!("context {} != {}", w.ctx, id_str(self.ctx)));
        }
        if w.hash != self.hash {
            diffs.push(format!("hash {:?} != {:?}", w.hash, self.hash));
        }
        if w.meta != self.meta {
            diffs.push(format!("meta {:?} != {:?}", w.meta, self.meta));
        }
        if w.ttl != self.ttl {
            diffs.push(format!("ttl {:?} != {:?}", w.ttl, self.ttl));
        }
        if diffs.is_empty() {
            Ok(())
        } else {
            Err(format!("frame {}: {}", w.id, diffs.join("; ")))
        }
    }
}

#[derive(Clone, Debug)]
struct HeadTask {
    ctx: u128,
    topic: String,
    keep: u32,
    /// the (ctx, topic) population at every model state since the task was queued
    snaps: Vec<Vec<(u128, Presence)>>,
}

#[derive(Clone, Debug)]
enum GcItem {
    /// lazy-expiry removal queued by a stream read (`certain` = the read certainly
    /// scanned the frame)
    Remove { id: u128, certain: bool },
    Head(HeadTask),
}

/// What kind of disagreement the oracle found; mapped to property ids by the
/// checks.
#[derive(Clone, Copy, Debug, PartialEq, Eq, Hash)]
pub enum Class {
    /// result not strictly increasing / duplicate
    Order,
    /// a frame that must be readable is missing
    Missing,
    /// a frame that was explicitly removed came back
    ExtraRemoved,
    /// an expired time:N frame in a stream read, or physically present after collection
    ExtraExpired,
    /// a frame evicted by head:K still there / more than K survive
    ExtraEvicted,
    /// an ephemeral frame was stored
    ExtraEphemeral,
    /// a frame nobody ever sent
    ExtraUnknown,
    /// frame outside the requested context
    ScopeContext,
    /// frame at or before last-id
    ScopeLastId,
    /// more frames than `limit`
    Limit,
    /// a field differs from what was accepted
    Field,
    /// by-id / all-stream / context-stream / head disagree
    CrossPath,
    /// head(topic, ctx) is not the newest frame of exactly that topic
    Head,
    /// append accepted/rejected against the registration rule
    ContextRule,
    /// NUL topic accepted or left a trace
    NulTopic,
    /// successive appends did not get increasing ids
    IdOrder,
    /// import did something other than "store as is"
    Import,
    /// follower did not get exactly the appended frames
    Follow,
    /// xs panicked / store would not reopen
    Panic,
    /// HTTP front end disagreement
    Http,
    /// content store disagreement
    Cas,
}

#[derive(Clone, Debug)]
pub struct Fail {
    pub class: Class,
    pub msg: String,
}

impl Fail {
    pub fn new(class: Class, msg: impl Into<String>) -> Fail {
        Fail {
            class,
            msg: msg.into(),
        }
    }
}

pub type Check = Result<(), Fail>;

#[derive(Clone, Copy, Debug, PartialEq, Eq)]
pub enum GoneWhy {
    Removed,
    Expired,
    Evicted,
    Ephemeral,
}

#[derive(Clone, Debug, Default)]
pub struct Model {
    pub frames: BTreeMap<u128, MFrame>,
    pub clock: u64,
    /// the collector's FIFO queue as far as the model knows it
    queue: Vec<GcItem>,
    /// ids that are certainly not stored, with the reason (for diagnostics/classes)
    pub gone: BTreeMap<u128, GoneWhy>,
    pub last_append_id: Option<u128>,
    /// ids (re)inserted by import while a head:K task of their topic was queued:
    /// the task may have evaluated before the import, so they cannot be
    /// *certainly* evicted by it
    reinserted: BTreeSet<u128>,
    /// how many oracle evaluations had no `Maybe` frame in scope (exact) vs not
    pub exact_checks: u64,
    pub fuzzy_checks: u64,
}

fn ts_expiry(id: u128, n: u64) -> u64 {
    id_ts(id).saturating_add(n)
}

impl Model {
    pub fn new() -> Model {
        Model::default()
    }

    pub fn is_expired(&self, f: &MFrame) -> bool {
        match f.ttl {
            Some(WTtl::Time(n)) => self.clock >= ts_expiry(f.id, n),
            _ => false,
        }
    }

    /// Frames that a queued (not yet drained) head:K task may already have
    /// removed: the collector runs asynchronously any time after the append.
    /// Is head:K work for this (context, topic) still in the collector's queue?
    pub fn has_pending_head(&self, ctx: u128, topic: &str) -> bool {
        self.queue.iter().any(|q| matches!(q, GcItem::Head(t) if t.ctx == ctx && t.topic == topic))
    }

    pub fn pending_evictable(&self) -> BTreeSet<u128> {
        let mut out = BTreeSet::new();
        for t in self.queue.iter().filter_map(|q| match q {
            GcItem::Head(t) => Some(t),
            _ => None,
        }) {
            let keep = t.keep as usize;
            for snap in &t.snaps {
                for (i, (id, _)) in snap.iter().rev().enumerate() {
                    if i >= keep {
                        out.insert(*id);
                    }
                }
            }
        }
        out
    }

    fn eff(&self, f: &MFrame, evictable: &BTreeSet<u128>) -> Presence {
        // C08: once its time:N TTL has elapsed a frame may disappear at any moment
        // (whoever scans it queues its removal); C09 says when it *must* be gone.
        if f.presence == Presence::Maybe
            || f.pending_remove.is_some()
            || evictable.contains(&f.id)
            || self.is_expired(f)
        {
            Presence::Maybe
        } else {
            Presence::Present
        }
    }

    pub fn has_maybe(&self) -> bool {
        self.frames
            .values()
            .any(|f| f.presence == Presence::Maybe || f.pending_remove.is_some())
    }

    pub fn maybe_ids(&self) -> Vec<u128> {
        self.frames
            .values()
            .filter(|f| f.presence == Presence::Maybe)
            .map(|f| f.id)
            .collect()
    }

    /// Some(true/false) when the registration rule decides; None when the
    /// registering frame's presence is itself undetermined.
    pub fn usable(&self, ctx: u128) -> Option<bool> {
        if ctx == ZERO {
            return Some(true);
        }
        match self.frames.get(&ctx) {
            Some(f) if f.topic == "xs.context" && f.ctx == ZERO => {
                // (a registration whose own time:N TTL has elapsed may or may not
                // have been collected yet: undetermined until it is)
                match self.eff(f, &self.pending_evictable()) {
                    Presence::Present => Some(true),
                    Presence::Maybe => None,
                }
            }
            _ => Some(false),
        }
    }

    pub fn contexts_in_use(&self) -> BTreeSet<u128> {
        let mut s: BTreeSet<u128> = self.frames.values().map(|f| f.ctx).collect();
        s.insert(ZERO);
        for f in self.frames.values() {
            if f.topic == "xs.context" && f.ctx == ZERO {
                s.insert(f.id);
            }
        }
        s
    }

    /// Expected outcome of an append: Ok(true) accept, Ok(false) reject,
    /// Err(()) undetermined.
    pub fn append_expect(&self, spec: &FrameSpec) -> Result<bool, ()> {
        if spec.topic == "xs.context" {
            // (a registration is kept forever whatever TTL was asked for)
            return Ok(spec.ctx == ZERO);
        }
        if spec.ttl == Some(WTtl::Head(0)) {
            // `head:0` is no TTL: refused at every boundary
            return Ok(false);
        }
        match self.usable(spec.ctx) {
            Some(false) => return Ok(false),
            None => return Err(()),
            Some(true) => {}
        }
        if spec.topic.as_bytes().contains(&0) {
            return Ok(false);
        }
        // whether a very deeply nested meta is storable is xs's call (its JSON codec
        // has a nesting limit); the properties only demand that whatever is
        // accepted reads back, so both answers are admissible here
        if spec.meta.as_ref().map(|m| m.depth() > 64).unwrap_or(false) {
            return Err(());
        }
        Ok(true)
    }

    fn topic_population(&self, ctx: u128, topic: &str) -> Vec<(u128, Presence)> {
        let ev = self.pending_evictable();
        self.frames
            .values()
            .filter(|f| f.ctx == ctx && f.topic == topic)
            .map(|f| (f.id, self.eff(f, &ev)))
            .collect()
    }

    /// population as recorded in task snapshots: what earlier queued tasks do is
    /// applied when the tasks are resolved in FIFO order, not here
    fn topic_population_raw(&self, ctx: u128, topic: &str) -> Vec<(u128, Presence)> {
        self.frames
            .values()
            .filter(|f| f.ctx == ctx && f.topic == topic)
            .map(|f| {
                (f.id, f.presence)
            })
            .collect()
    }

    fn has_task(&self, ctx: u128, topic: &str) -> bool {
        self.queue
            .iter()
            .any(|q| matches!(q, GcItem::Head(t) if t.ctx == ctx && t.topic == topic))
    }

    fn touch_tasks(&mut self, ctx: u128, topic: &str) {
        if self.has_task(ctx, topic) {
            let pop = self.topic_population_raw(ctx, topic);
            for q in self.queue.iter_mut() {
                if let GcItem::Head(t) = q {
                    if t.ctx == ctx && t.topic == topic {
                        t.snaps.push(pop.clone());
                    }
                }
            }
        }
    }

    /// Record an accepted append as xs returned it.
    pub fn apply_append(&mut self, spec: &FrameSpec, returned: &WFrame) -> Check {
        let id = returned.id128();
        if let Some(last) = self.last_append_id {
            if id <= last {
                return Err(Fail::new(
                    Class::IdOrder,
                    format!(
                        "append returned id {} which is not greater than the previous append's id {}",
                        returned.id,
                        id_str(last)
                    ),
                ));
            }
        }
        self.last_append_id = Some(id);
        let ttl = if spec.topic == "xs.context" {
            Some(WTtl::Forever)
        } else {
            spec.ttl.clone()
        };
        let mf = MFrame {
            id,
            topic: spec.topic.clone(),
            ctx: spec.ctx,
            hash: spec.hash.clone(),
            meta: spec.meta_printed(),
            ttl: ttl.clone(),
            origin: Origin::Append,
            presence: Presence::Present,
            pending_remove: None,
        };
        // the frame handed back must be the frame accepted
        mf.same_fields(returned).map_err(|m| {
            Fail::new(
                if spec.topic == "xs.context" && returned.ttl != Some(WTtl::Forever) {
                    Class::ContextRule
                } else {
                    Class::Field
                },
                format!("append returned a different frame: {m}"),
            )
        })?;
        if ttl == Some(WTtl::Ephemeral) {
            self.gone.insert(id, GoneWhy::Ephemeral);
            return Ok(());
        }
        self.gone.remove(&id);
        let (ctx, topic) = (mf.ctx, mf.topic.clone());
        self.frames.insert(id, mf);
        self.touch_tasks(ctx, &topic);
        if let Some(WTtl::Head(k)) = ttl {
            let pop = self.topic_population_raw(ctx, &topic);
            self.queue.push(GcItem::Head(HeadTask {
                ctx,
                topic,
                keep: k,
                snaps: vec![pop],
            }));
        }
        Ok(())
    }

    /// Record an accepted import (frame stored as is).
    pub fn apply_import(&mut self, spec: &FrameSpec) {
        let id = spec.id.expect("import needs an id");
        let mf = MFrame {
            id,
            topic: spec.topic.clone(),
            ctx: spec.ctx,
            hash: spec.hash.clone(),
            meta: spec.meta_printed(),
            ttl: spec.ttl.clone(),
            origin: Origin::Import,
            presence: Presence::Present,
            pending_remove: None,
        };
        self.gone.remove(&id);
        let (ctx, topic) = (mf.ctx, mf.topic.clone());
        if self.has_task(ctx, &topic)
            || self
                .queue
                .iter()
                .any(|q| matches!(q, GcItem::Remove { id: r, .. } if *r == id))
        {
            // queued collector work for this id / topic may run before or after this import
            self.reinserted.insert(id);
        }
        let mut mf = mf;
        if self
            .queue
            .iter()
            .any(|q| matches!(q, GcItem::Remove { id: r, .. } if *r == id))
        {
            // a removal of this very id is still queued: it may hit the new frame
            mf.pending_remove = Some(false);
        }
        self.frames.insert(id, mf);
        self.touch_tasks(ctx, &topic);
    }

    /// Adopt a frame xs created on its own (e.g. `xs.start`).
    pub fn adopt(&mut self, w: &WFrame) {
        let id = w.id128();
        let mf = MFrame {
            id,
            topic: w.topic.clone(),
            ctx: w.ctx128(),
            hash: w.hash.clone(),
            meta: w.meta.clone(),
            ttl: w.ttl.clone(),
            origin: Origin::Append,
            presence: Presence::Present,
            pending_remove: None,
        };
        if self.last_append_id.map(|l| id > l).unwrap_or(true) {
            self.last_append_id = Some(id);
        }
        let (ctx, topic) = (mf.ctx, mf.topic.clone());
        self.frames.insert(id, mf);
        self.touch_tasks(ctx, &topic);
    }

    pub fn apply_remove(&mut self, id: u128) {
        if let Some(f) = self.frames.remove(&id) {
            self.gone.insert(id, GoneWhy::Removed);
            self.touch_tasks(f.ctx, &f.topic);
        }
    }

    pub fn set_clock(&mut self, ms: u64) {
        if ms > self.clock {
            self.clock = ms;
        }
    }

    fn in_scope(f: &MFrame, ctx: Option<u128>, last_id: Option<u128>) -> bool {
        ctx.map(|c| f.ctx == c).unwrap_or(true) && last_id.map(|l| f.id > l).unwrap_or(true)
    }

    fn class_for_absent(&self, id: u128) -> Class {
        match self.gone.get(&id) {
            Some(GoneWhy::Removed) => Class::ExtraRemoved,
            Some(GoneWhy::Expired) => Class::ExtraExpired,
            Some(GoneWhy::Evicted) => Class::ExtraEvicted,
            Some(GoneWhy::Ephemeral) => Class::ExtraEphemeral,
            None => Class::ExtraUnknown,
        }
    }

    /// Oracle for a non-following stream read (`read_sync`, `read(follow=off)`,
    /// `GET /`, `.cat`).
    pub fn check_stream(
        &mut self,
        what: &str,
        ctx: Option<u128>,
        last_id: Option<u128>,
        limit: Option<usize>,
        result: &[WFrame],
    ) -> Check {
        let mut fuzzy = false;
        let mut prev: Option<u128> = None;
        let ev = self.pending_evictable();
        // frames that must appear, in order
        let must: Vec<u128> = self
            .frames
            .values()
            .filter(|f| Self::in_scope(f, ctx, last_id))
            .filter(|f| !self.is_expired(f))
            .filter(|f| {
                let p = self.eff(f, &ev);
                if p == Presence::Maybe {
                    fuzzy = true;
                }
                p == Presence::Present
            })
            .map(|f| f.id)
            .collect();
        let mut mi = 0usize;
        if let Some(l) = limit {
            if result.len() > l {
                return Err(Fail::new(
                    Class::Limit,
                    format!("{what}: {} frames returned for limit {l}", result.len()),
                ));
            }
        }
        for w in result {
            let id = w.id128();
            if let Some(p) = prev {
                if id <= p {
                    return Err(Fail::new(
                        Class::Order,
                        format!(
                            "{what}: id {} delivered after {} (not strictly increasing)",
                            w.id,
                            id_str(p)
                        ),
                    ));
                }
            }
            prev = Some(id);
            let Some(mf) = self.frames.get(&id) else {
                return Err(Fail::new(
                    self.class_for_absent(id),
                    format!(
                        "{what}: returned frame {} ({:?}) which is not stored according to the history ({:?})",
                        w.id,
                        w.topic,
                        self.gone.get(&id)
                    ),
                ));
            };
            if let Some(c) = ctx {
                if mf.ctx != c || w.ctx128() != c {
                    return Err(Fail::new(
                        Class::ScopeContext,
                        format!(
                            "{what}: frame {} of context {} returned for context {}",
                            w.id,
                            w.ctx,
                            id_str(c)
                        ),
                    ));
                }
            }
            if let Some(l) = last_id {
                if id <= l {
                    return Err(Fail::new(
                        Class::ScopeLastId,
                        format!("{what}: frame {} is not after last-id {}", w.id, id_str(l)),
                    ));
                }
            }
            if self.is_expired(mf) {
                return Err(Fail::new(
                    Class::ExtraExpired,
                    format!(
                        "{what}: frame {} ttl {:?} returned at clock {} although it expired at {}",
                        w.id,
                        mf.ttl,
                        self.clock,
                        match mf.ttl {
                            Some(WTtl::Time(n)) => ts_expiry(id, n),
                            _ => 0,
                        }
                    ),
                ));
            }
            mf.same_fields(w)
                .map_err(|m| Fail::new(Class::Field, format!("{what}: {m}")))?;
            // every must-frame before this one has to have been delivered
            while mi < must.len() && must[mi] < id {
                return Err(Fail::new(
                    Class::Missing,
                    format!(
                        "{what}: frame {} ({:?}) is stored and in scope but was skipped (next delivered: {})",
                        id_str(must[mi]),
                        self.frames[&must[mi]].topic,
                        w.id
                    ),
                ));
            }
            if mi < must.len() && must[mi] == id {
                mi += 1;
            }
        }
        let exhausted = limit.map(|l| result.len() < l).unwrap_or(true);
        if exhausted && mi < must.len() {
            return Err(Fail::new(
                Class::Missing,
                format!(
                    "{what}: frame {} ({:?}) is stored and in scope but was not returned ({} returned, limit {:?})",
                    id_str(must[mi]),
                    self.frames[&must[mi]].topic,
                    result.len(),
                    limit
                ),
            ));
        }
        if fuzzy {
            self.fuzzy_checks += 1;
        } else {
            self.exact_checks += 1;
        }
        // side effect of a stream read: expired frames it scanned are queued for removal
        let last_returned = result.last().map(|w| w.id128());
        self.note_scan(ctx, last_id, exhausted, last_returned);
        Ok(())
    }

    /// A stream read over (ctx, after last_id) happened: every expired frame it
    /// scanned has a removal queued behind whatever is already in the collector's
    /// queue.
    pub fn note_scan(
        &mut self,
        ctx: Option<u128>,
        last_id: Option<u128>,
        exhausted: bool,
        last_returned: Option<u128>,
    ) {
        let clock = self.clock;
        let mut queued = Vec::new();
        for f in self.frames.values_mut() {
            if !Self::in_scope(f, ctx, last_id) {
                continue;
            }
            let expired = match f.ttl {
                Some(WTtl::Time(n)) => clock >= ts_expiry(f.id, n),
                _ => false,
            };
            if !expired {
                continue;
            }
            let certainly_scanned = exhausted || last_returned.map(|l| f.id < l).unwrap_or(false);
            queued.push(GcItem::Remove {
                id: f.id,
                certain: certainly_scanned,
            });
            match (f.pending_remove, certainly_scanned) {
                (Some(true), _) => {}
                (_, true) => f.pending_remove = Some(true),
                (None, false) => f.pending_remove = Some(false),
                (Some(false), false) => {}
            }
        }
        self.queue.extend(queued);
    }

    pub fn check_get(&mut self, what: &str, id: u128, result: Option<&WFrame>) -> Check {
        match (self.frames.get(&id), result) {
            (None, None) => {
                self.exact_checks += 1;
                Ok(())
            }
            (None, Some(w)) => Err(Fail::new(
                self.class_for_absent(id),
                format!(
                    "{what}: lookup of {} returned a frame ({:?}) that is not stored according to the history ({:?})",
                    id_str(id),
                    w.topic,
                    self.gone.get(&id)
                ),
            )),
            (Some(mf), None) => {
                if self.eff(mf, &self.pending_evictable()) == Presence::Maybe {
                    self.fuzzy_checks += 1;
                    Ok(())
                } else {
                    Err(Fail::new(
                        Class::Missing,
                        format!(
                            "{what}: lookup of {} ({:?}, ttl {:?}) returned nothing although it is stored",
                            id_str(id),
                            mf.topic,
                            mf.ttl
                        ),
                    ))
                }
            }
            (Some(mf), Some(w)) => {
                if w.id128() != id {
                    return Err(Fail::new(
                        Class::Field,
                        format!("{what}: lookup of {} returned frame {}", id_str(id), w.id),
                    ));
                }
                mf.same_fields(w)
                    .map_err(|m| Fail::new(Class::Field, format!("{what}: {m}")))?;
                self.exact_checks += 1;
                Ok(())
            }
        }
    }

    /// `head` works on what is physically stored (it does not filter expiry).
    pub fn check_head(&mut self, what: &str, topic: &str, ctx: u128, result: Option<&WFrame>) -> Check {
        let pop = self.topic_population(ctx, topic);
        let newest_present = pop
            .iter()
            .rev()
            .find(|(_, p)| *p == Presence::Present)
            .map(|x| x.0);
        match result {
            None => {
                if let Some(p) = newest_present {
                    return Err(Fail::new(
                        Class::Head,
                        format!(
                            "{what}: head({topic:?}, {}) returned nothing but frame {} is stored",
                            id_str(ctx),
                            id_str(p)
                        ),
                    ));
                }
                Ok(())
            }
            Some(w) => {
                let id = w.id128();
                if w.topic != topic || w.ctx128() != ctx {
                    return Err(Fail::new(
                        Class::Head,
                        format!(
                            "{what}: head({topic:?}, {}) returned frame {} of topic {:?} context {}",
                            id_str(ctx),
                            w.id,
                            w.topic,
                            w.ctx
                        ),
                    ));
                }
                let Some(mf) = self.frames.get(&id) else {
                    return Err(Fail::new(
                        self.class_for_absent(id),
                        format!(
                            "{what}: head({topic:?}) returned frame {} which is not stored ({:?})",
                            w.id,
                            self.gone.get(&id)
                        ),
                    ));
                };
                mf.same_fields(w)
                    .map_err(|m| Fail::new(Class::Field, format!("{what}: {m}")))?;
                // it must be the newest present one, or a Maybe frame newer than it
                if let Some(p) = newest_present {
                    if id < p {
                        return Err(Fail::new(
                            Class::Head,
                            format!(
                                "{what}: head({topic:?}, {}) returned {} but the newer frame {} of that topic is stored",
                                id_str(ctx),
                                w.id,
                                id_str(p)
                            ),
                        ));
                    }
                }
                Ok(())
            }
        }
    }

    /// `wait_for_gc` returned: everything queued before it has run, in order.
    pub fn drain(&mut self) {
        // what the collector has (certainly / possibly) removed so far in this drain;
        // only this is applied to the populations recorded in later tasks' snapshots
        // (explicit removals by the user are already reflected in the snapshots
        // taken after them)
        let mut gone_gc: BTreeSet<u128> = BTreeSet::new();
        let mut maybe_gc: BTreeSet<u128> = BTreeSet::new();
        let queue = std::mem::take(&mut self.queue);
        for item in queue {
            match item {
                GcItem::Remove { id, certain } => {
                    let certain = certain && !self.reinserted.contains(&id);
                    if certain {
                        gone_gc.insert(id);
                        maybe_gc.remove(&id);
                        if self.frames.remove(&id).is_some() {
                            self.gone.insert(id, GoneWhy::Expired);
                        }
                    } else if !gone_gc.contains(&id) {
                        maybe_gc.insert(id);
                        if let Some(f) = self.frames.get_mut(&id) {
                            f.presence = Presence::Maybe;
                        }
                    }
                }
                GcItem::Head(t) => self.resolve_task(&t, false, &mut gone_gc, &mut maybe_gc),
            }
        }
        for f in self.frames.values_mut() {
            f.pending_remove = None;
        }
        self.reinserted.clear();
    }

    fn resolve_task(
        &mut self,
        t: &HeadTask,
        may_not_have_run: bool,
        gone_gc: &mut BTreeSet<u128>,
        maybe_gc: &mut BTreeSet<u128>,
    ) {
        let keep = t.keep as usize;
        let mut certain: Option<BTreeSet<u128>> = None;
        let mut possible: BTreeSet<u128> = BTreeSet::new();
        for snap in &t.snaps {
            let cur: Vec<(u128, Presence)> = snap
                .iter()
                .filter(|(id, _)| !gone_gc.contains(id))
                .map(|(id, p)| {
                    (
                        *id,
                        if maybe_gc.contains(id) {
                            Presence::Maybe
                        } else {
                            *p
                        },
                    )
                })
                .collect();
            let mut cert_i = BTreeSet::new();
            let mut newer_present = 0usize;
            let mut newer_any = 0usize;
            for (id, p) in cur.iter().rev() {
                if newer_present >= keep {
                    cert_i.insert(*id);
                }
                if newer_any >= keep {
                    possible.insert(*id);
                }
                newer_any += 1;
                if *p == Presence::Present {
                    newer_present += 1;
                }
            }
            certain = Some(match certain {
                None => cert_i,
                Some(c) => c.intersection(&cert_i).cloned().collect(),
            });
        }
        let certain: BTreeSet<u128> = if may_not_have_run {
            BTreeSet::new()
        } else {
            certain
                .unwrap_or_default()
                .into_iter()
                .filter(|id| !self.reinserted.contains(id))
                .collect()
        };
        for id in &possible {
            if certain.contains(id) {
                gone_gc.insert(*id);
                if self.frames.remove(id).is_some() {
                    self.gone.insert(*id, GoneWhy::Evicted);
                }
            } else {
                maybe_gc.insert(*id);
                if let Some(f) = self.frames.get_mut(id) {
                    f.presence = Presence::Maybe;
                }
            }
        }
    }

    /// The process was killed and the store reopened: queued GC work may or may
    /// not have run (in order, up to some point). Opening the store scans the zero
    /// context as a stream read.
    pub fn reopen(&mut self) {
        let mut gone_gc = BTreeSet::new();
        let mut maybe_gc = BTreeSet::new();
        let queue = std::mem::take(&mut self.queue);
        for item in queue {
            match item {
                GcItem::Remove { id, .. } => {
                    maybe_gc.insert(id);
                    if let Some(f) = self.frames.get_mut(&id) {
                        f.presence = Presence::Maybe;
                    }
                }
                GcItem::Head(t) => self.resolve_task(&t, true, &mut gone_gc, &mut maybe_gc),
            }
        }
        for f in self.frames.values_mut() {
            f.pending_remove = None;
        }
        self.reinserted.clear();
        self.note_scan(Some(ZERO), None, true, None);
    }

    /// An operation on this frame was in flight when the process died.
    pub fn set_maybe(&mut self, id: u128) {
        if let Some(f) = self.frames.get_mut(&id) {
            f.presence = Presence::Maybe;
        }
    }

    /// A `Maybe` frame was observed at a settled point: fix its state.
    pub fn collapse(&mut self, id: u128, present: bool) {
        let why = match self.frames.get(&id) {
            Some(f) if f.presence == Presence::Maybe => {
                if self.is_expired(f) {
                    GoneWhy::Expired
                } else {
                    GoneWhy::Evicted
                }
            }
            _ => return,
        };
        if present {
            self.frames.get_mut(&id).unwrap().presence = Presence::Present;
        } else {
            self.frames.remove(&id);
            self.gone.insert(id, why);
        }
    }

    /// C09 retention clause, evaluated after a drain with no `Maybe` frames:
    /// every (ctx, topic) whose newest stored frame was *appended* with head:N
    /// holds at most N frames. Returns the offending (ctx, topic, n, count).
    pub fn head_overflow(&self, observed: &[WFrame]) -> Option<(String, String, u32, usize)> {
        let mut groups: BTreeMap<(String, String), Vec<&WFrame>> = BTreeMap::new();
        for w in observed {
            groups
                .entry((w.ctx.clone(), w.topic.clone()))
                .or_default()
                .push(w);
        }
        for ((ctx, topic), v) in groups {
            let newest = v.iter().max_by_key(|w| w.id128()).unwrap();
            if let Some(WTtl::Head(n)) = newest.ttl {
                let appended = self
                    .frames
                    .get(&newest.id128())
                    .map(|f| f.origin == Origin::Append)
                    .unwrap_or(false);
                // imports trigger no collection (C20: stored as is); only claim the
                // bound when no import touched the topic after the newest append
                let import_after = false;
                if appended && !import_after && v.len() > n as usize {
                    return Some((ctx, topic, n, v.len()));
                }
            }
        }
        None
    }

    pub fn visible_ids(&self, ctx: Option<u128>) -> Vec<u128> {
        self.frames
            .values()
            .filter(|f| Self::in_scope(f, ctx, None) && !self.is_expired(f))
            .map(|f| f.id)
            .collect()
    }
}

#[cfg(test)]
mod tests {
    use super::*;

    fn spec(topic: &str, ctx: u128, ttl: Option<WTtl>) -> FrameSpec {
        FrameSpec {
            topic: topic.into(),
            ctx,
            id: None,
            hash: None,
            meta: None,
            ttl,
        }
    }
    fn ret(spec: &FrameSpec, id: u128) -> WFrame {
        WFrame {
            id: id_str(id),
            ctx: id_str(spec.ctx),
            topic: spec.topic.clone(),
            hash: None,
            meta: None,
            ttl: if spec.topic == "xs.context" {
                Some(WTtl::Forever)
            } else {
                spec.ttl.clone()
            },
        }
    }
    fn mkid(ts: u64, n: u32) -> u128 {
        scru128::Scru128Id::from_fields(ts, n, 0, 0).to_u128()
    }

    #[test]
    fn head_ttl_exact_when_drained_immediately() {
        let mut m = Model::new();
        let s = spec("t", ZERO, Some(WTtl::Head(2)));
        for i in 0..4 {
            m.apply_append(&s, &ret(&s, mkid(1000, i))).unwrap();
            m.drain();
        }
        assert_eq!(m.frames.len(), 2);
        assert!(!m.has_maybe());
        assert!(m.frames.contains_key(&mkid(1000, 3)));
        assert!(m.frames.contains_key(&mkid(1000, 2)));
    }

    #[test]
    fn head_ttl_deferred_is_three_valued() {
        let mut m = Model::new();
        let f = spec("t", ZERO, None);
        m.apply_append(&f, &ret(&f, mkid(1000, 0))).unwrap();
        m.apply_append(&f, &ret(&f, mkid(1000, 1))).unwrap();
        let h = spec("t", ZERO, Some(WTtl::Head(1)));
        m.apply_append(&h, &ret(&h, mkid(1000, 2))).unwrap();
        // a frame appended before the drain: the task may run before or after it
        m.apply_append(&f, &ret(&f, mkid(1000, 3))).unwrap();
        m.drain();
        // 0 and 1 are outside the newest 1 in both states: gone
        assert!(!m.frames.contains_key(&mkid(1000, 0)));
        assert!(!m.frames.contains_key(&mkid(1000, 1)));
        // 2 survives if the task ran before 3 arrived, else is evicted
        assert_eq!(m.frames[&mkid(1000, 2)].presence, Presence::Maybe);
        assert_eq!(m.frames[&mkid(1000, 3)].presence, Presence::Present);
    }

    #[test]
    fn other_topic_untouched_by_head_gc() {
        let mut m = Model::new();
        let a = spec("ab", ZERO, None);
        let b = spec("abc", ZERO, None);
        m.apply_append(&b, &ret(&b, mkid(1, 0))).unwrap();
        m.apply_append(&a, &ret(&a, mkid(1, 1))).unwrap();
        let h = spec("ab", ZERO, Some(WTtl::Head(1)));
        m.apply_append(&h, &ret(&h, mkid(1, 2))).unwrap();
        m.drain();
        assert!(m.frames.contains_key(&mkid(1, 0)));
        assert!(!m.frames.contains_key(&mkid(1, 1)));
    }

    #[test]
    fn expiry_boundaries_and_lazy_collection() {
        let mut m = Model::new();
        let s = spec("t", ZERO, Some(WTtl::Time(10)));
        let id = mkid(1000, 0);
        m.apply_append(&s, &ret(&s, id)).unwrap();
        m.set_clock(1009);
        assert!(m
            .check_stream("r", None, None, None, &[ret(&s, id)])
            .is_ok());
        // not returning it one ms before expiry is a violation
        assert_eq!(
            m.check_stream("r", None, None, None, &[]).unwrap_err().class,
            Class::Missing
        );
        m.set_clock(1010);
        assert_eq!(
            m.check_stream("r", None, None, None, &[ret(&s, id)])
                .unwrap_err()
                .class,
            Class::ExtraExpired
        );
        // may still be physically there until a stream read scanned it and the collector ran
        assert!(m.check_get("g", id, Some(&ret(&s, id))).is_ok());
        assert!(m.check_get("g", id, None).is_ok());
        m.check_stream("r", None, None, None, &[]).unwrap();
        assert!(m.check_get("g", id, None).is_ok());
        m.drain();
        assert_eq!(
            m.check_get("g", id, Some(&ret(&s, id))).unwrap_err().class,
            Class::ExtraExpired
        );
    }

    #[test]
    fn context_rule() {
        let mut m = Model::new();
        let r = spec("xs.context", ZERO, Some(WTtl::Head(1)));
        let cid = mkid(5, 0);
        m.apply_append(&r, &ret(&r, cid)).unwrap();
        assert_eq!(m.frames[&cid].ttl, Some(WTtl::Forever));
        assert_eq!(m.append_expect(&spec("a", cid, None)), Ok(true));
        assert_eq!(m.append_expect(&spec("a", 77, None)), Ok(false));
        assert_eq!(m.append_expect(&spec("xs.context", cid, None)), Ok(false));
        assert_eq!(m.append_expect(&spec("a\0", ZERO, None)), Ok(false));
        m.apply_remove(cid);
        assert_eq!(m.append_expect(&spec("a", cid, None)), Ok(false));
    }

    #[test]
    fn limit_and_last_id_prefix() {
        let mut m = Model::new();
        let s = spec("t", ZERO, None);
        let ids: Vec<u128> = (0..4).map(|i| mkid(1, i)).collect();
        for id in &ids {
            m.apply_append(&s, &ret(&s, *id)).unwrap();
        }
        let all: Vec<WFrame> = ids.iter().map(|i| ret(&s, *i)).collect();
        assert!(m
            .check_stream("r", None, Some(ids[0]), Some(2), &all[1..3])
            .is_ok());
        assert_eq!(
            m.check_stream("r", None, Some(ids[0]), Some(2), &all[0..2])
                .unwrap_err()
                .class,
            Class::ScopeLastId
        );
        assert_eq!(
            m.check_stream("r", None, None, Some(2), &all[0..3])
                .unwrap_err()
                .class,
            Class::Limit
        );
        assert_eq!(
            m.check_stream("r", None, None, Some(3), &all[0..2])
                .unwrap_err()
                .class,
            Class::Missing
        );
        assert_eq!(
            m.check_stream("r", None, None, None, &[all[0].clone(), all[2].clone()])
                .unwrap_err()
                .class,
            Class::Missing
        );
    }
}
