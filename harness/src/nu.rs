//! Driver-side helper for the nu-level checks (C14..C19, C17, parts of C06):
//! an executor running the three serve loops exactly as `xs serve` wires them,
//! plus an all-contexts follower from the start of the stream through which the
//! driver observes every frame (stored or ephemeral) in id order.

use std::time::{Duration, Instant};

use crate::client::*;
use crate::exec::FollowItem;
use crate::hist::{infra, must};
use crate::model::*;
use crate::wire::*;

pub struct Nu {
    pub dir: StoreDir,
    pub exec: Exec,
    pub fh: u32,
    pub loops: (bool, bool, bool),
}

pub fn fspec(topic: &str, ctx: u128, meta: Option<MetaVal>, ttl: Option<WTtl>) -> FrameSpec {
    FrameSpec {
        topic: topic.to_string(),
        ctx,
        id: None,
        hash: None,
        meta,
        ttl,
    }
}

impl Nu {
    pub fn start(handlers: bool, generators: bool, commands: bool) -> Result<Nu, Fail> {
        let dir = StoreDir::new();
        let exec = Exec::spawn(&dir.path, &ExecOpts::default()).map_err(|e| infra(format!("spawn: {e}")))?;
        let mut nu = Nu {
            dir,
            exec,
            fh: 0,
            loops: (handlers, generators, commands),
        };
        nu.boot()?;
        Ok(nu)
    }

    fn boot(&mut self) -> Check {
        self.fh = must(
            "follow_start",
            self.exec.follow_start(
                &ROpts {
                    follow: Some(0),
                    ..Default::default()
                },
                false,
                false,
            ),
        )?;
        must(
            "serve_nu",
            self.exec.serve_nu(self.loops.0, self.loops.1, self.loops.2),
        )
    }

    /// Kill the server process and start it again on the same store.
    pub fn restart(&mut self) -> Check {
        self.restart_after(|_| Ok(()))
    }

    /// The same, with `before_serving` run on the reopened store before the loops start (frames
    /// that reached the store but were never seen by the server that died).
    pub fn restart_after(&mut self, before_serving: impl FnOnce(&mut Exec) -> Check) -> Check {
        self.exec.kill_ref();
        self.exec = Exec::spawn(&self.dir.path, &ExecOpts::default()).map_err(|e| match e {
            ExecErr::Panic(p) => Fail::new(Class::Panic, format!("the store does not reopen: {p}")),
            e => infra(format!("respawn: {e}")),
        })?;
        before_serving(&mut self.exec)?;
        self.boot()
    }

    /// The commands loop ignores calls it finds in history (by design: no replay). Wait
    /// until it is past its threshold: call a trivial command until a call is answered.
    pub fn ready_commands(&mut self) -> Check {
        self.append("xsv.ready.define", ZERO, Some(b"{run: {|frame| \"ready\"}}"), None)?;
        let deadline = Instant::now() + Duration::from_secs(30);
        loop {
            let c = self.append("xsv.ready.call", ZERO, None, None)?;
            let (_, ok) = self.wait(Duration::from_millis(40), |fr| {
                fr.iter().any(|w| w.topic == "xsv.ready.complete" && meta_of(w, "frame_id").as_deref() == Some(&c.id))
            })?;
            if ok {
                return Ok(());
            }
            if Instant::now() > deadline {
                return Err(infra("the commands loop did not become live within 30 s"));
            }
        }
    }

    pub fn register_ctx(&mut self) -> Result<u128, Fail> {
        Ok(must(
            "register context",
            self.exec.append(&fspec("xs.context", ZERO, None, None), None),
        )?
        .id128())
    }

    pub fn append(
        &mut self,
        topic: &str,
        ctx: u128,
        content: Option<&[u8]>,
        meta: Option<MetaVal>,
    ) -> Result<WFrame, Fail> {
        must("append", self.exec.append(&fspec(topic, ctx, meta, None), content))
    }

    /// Everything observed so far, without the follower's own threshold marker.
    pub fn items(&mut self) -> Result<Vec<FollowItem>, Fail> {
        let (items, closed, _) = must("follow_poll", self.exec.follow_poll(self.fh))?;
        if closed {
            return Err(Fail::new(Class::Follow, "the observing follower's stream ended".to_string()));
        }
        Ok(items
            .into_iter()
            .filter(|i| i.frame.topic != "xs.threshold")
            .collect())
    }

    pub fn frames(&mut self) -> Result<Vec<WFrame>, Fail> {
        Ok(self.items()?.into_iter().map(|i| i.frame).collect())
    }

    /// Poll until `pred` holds on the observed frames or `timeout` passes.
    pub fn wait(
        &mut self,
        timeout: Duration,
        mut pred: impl FnMut(&[WFrame]) -> bool,
    ) -> Result<(Vec<WFrame>, bool), Fail> {
        let deadline = Instant::now() + timeout;
        loop {
            let fr = self.frames()?;
            if pred(&fr) {
                return Ok((fr, true));
            }
            if Instant::now() > deadline {
                return Ok((fr, false));
            }
            std::thread::sleep(Duration::from_millis(2));
        }
    }

    pub fn content(&mut self, hash: &str) -> Result<Vec<u8>, Fail> {
        self.exec
            .cas_read(hash, false)
            .map_err(|e| Fail::new(Class::Cas, format!("content {hash} of an observed frame is not retrievable: {e}")))
    }

    pub fn panics(&mut self) -> Result<Vec<String>, Fail> {
        must("panics", self.exec.panics())
    }

    pub fn finish(&mut self) {
        self.exec.kill_ref();
    }
}

pub fn meta_of(w: &WFrame, key: &str) -> Option<String> {
    w.meta_str(key)
}

/// A double-quoted nu string literal for a string from the harness's safe alphabet.
pub fn nu_str(s: &str) -> String {
    let mut out = String::from("\"");
    for c in s.chars() {
        match c {
            '"' => out.push_str("\\\""),
            '\\' => out.push_str("\\\\"),
            '\n' => out.push_str("\\n"),
            c => out.push(c),
        }
    }
    out.push('"');
    out
}
