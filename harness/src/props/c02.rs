//! C02: the stream is append-only even with concurrent writers.
//!
//! Scenarios run inside one executor: 2..4 appender threads, pollers that read
//! with last-id = the last frame they saw, followers (tail and from the start),
//! under a generated schedule of delays at the sync points of `Store::append`
//! (after id assignment, before/after commit, after broadcast). A second,
//! hook-free detector is a plain multi-writer stress.

use std::collections::{BTreeMap, BTreeSet};
use std::time::Instant;

use proptest::prelude::*;
use proptest::strategy::BoxedStrategy;
use serde::{Deserialize, Serialize};
use serde_json::json;

use crate::client::*;
use crate::director::*;
use crate::hist::{infra, must};
use crate::model::*;
use crate::runner::*;
use crate::wire::*;

pub const APPEND_LABELS: &[&str] = &[
    "append.after_id",
    "insert.before_commit",
    "insert.after_commit",
    "append.after_commit",
    "append.after_broadcast",
];
pub const DELAYS_US: &[u64] = &[200, 1000, 5000, 20000];

#[derive(Clone, Debug, Serialize, Deserialize)]
pub struct RuleSpec {
    /// writer index (None = any actor)
    pub writer: Option<u8>,
    pub label: u8,
    pub occurrence: Option<u8>,
    pub delay: u8,
}

#[derive(Clone, Debug, Serialize, Deserialize)]
pub struct WFrameSpec {
    pub ctx: u8,
    pub topic: u8,
    pub ephemeral: bool,
    pub pause_us: u16,
    /// a context registration (`xs.context` in the zero context) instead of an ordinary frame
    #[serde(default)]
    pub register: bool,
    /// the frame handed to `append` already carries an (old) id, as a frame read back from a
    /// store does: `append` assigns its own
    #[serde(default)]
    pub stale_id: bool,
}

#[derive(Clone, Debug, Serialize, Deserialize)]
pub struct C02Case {
    pub writers: Vec<Vec<WFrameSpec>>,
    /// (context scope, interval us)
    pub pollers: Vec<(Option<u8>, u16)>,
    /// (tail, context scope)
    pub followers: Vec<(bool, Option<u8>)>,
    pub rules: Vec<RuleSpec>,
    /// frames appended before the scenario starts
    pub pre: u8,
    /// plain stress instead of a directed schedule: writers x frames
    pub stress: Option<(u8, u8)>,
    /// every writer removes, after each append, the stored frame it appended this many appends
    /// earlier: the cursor a last-id reader holds may name a frame that is gone
    #[serde(default)]
    pub remove_lag: Option<u8>,
}

pub fn rule_spec(n_writers: u8, labels: usize) -> BoxedStrategy<RuleSpec> {
    (
        proptest::option::weighted(0.8, 0..n_writers),
        0..labels as u8,
        proptest::option::weighted(0.7, 0u8..4),
        0..DELAYS_US.len() as u8,
    )
        .prop_map(|(writer, label, occurrence, delay)| RuleSpec {
            writer,
            label,
            occurrence,
            delay,
        })
        .boxed()
}

pub fn strategy() -> BoxedStrategy<C02Case> {
    let frame = (0u8..3, 0u8..3, prop_oneof![9 => Just(false), 1 => Just(true)], prop_oneof![3 => Just(0u16), 1 => 0u16..2000], proptest::bool::weighted(0.12), proptest::bool::weighted(0.12))
        .prop_map(|(ctx, topic, ephemeral, pause_us, register, stale_id)| WFrameSpec {
            ctx,
            topic,
            ephemeral,
            pause_us,
            register,
            stale_id,
        });
    let directed = (
        proptest::collection::vec(proptest::collection::vec(frame, 1..=4), 2..=4),
        proptest::collection::vec((proptest::option::weighted(0.4, 0u8..3), 50u16..2000), 1..=2),
        proptest::collection::vec((any::<bool>(), proptest::option::weighted(0.4, 0u8..3)), 0..=2),
        proptest::collection::vec(rule_spec(4, APPEND_LABELS.len()), 1..=5),
        0u8..4,
        proptest::option::weighted(0.3, 1u8..3),
    )
        .prop_map(|(writers, pollers, followers, rules, pre, remove_lag)| C02Case {
            writers,
            pollers,
            followers,
            rules,
            pre,
            stress: None,
            remove_lag,
        });
    let stress = (4u8..=8, 20u8..=60, proptest::option::weighted(0.3, 1u8..3)).prop_map(|(w, n, remove_lag)| C02Case {
        writers: vec![],
        pollers: vec![(None, 100), (Some(1), 150)],
        followers: vec![(false, None), (true, None)],
        rules: vec![],
        pre: 2,
        stress: Some((w, n)),
        remove_lag,
    });
    prop_oneof![9 => directed, 1 => stress].boxed()
}

fn spec(topic: &str, ctx: u128, ttl: Option<WTtl>) -> FrameSpec {
    FrameSpec {
        topic: topic.to_string(),
        ctx,
        id: None,
        hash: None,
        meta: None,
        ttl,
    }
}

const TOPICS: &[&str] = &["a", "ab", "t"];

pub fn order(msg: String) -> Fail {
    Fail::new(Class::Order, msg)
}

pub fn run_case(case: &C02Case) -> Result<CaseInfo, Fail> {
    let dir = StoreDir::new();
    let mut exec = Exec::spawn(&dir.path, &ExecOpts::default()).map_err(|e| infra(format!("spawn: {e}")))?;
    let r = run_in(case, &mut exec);
    exec.kill_ref();
    r
}

fn run_in(case: &C02Case, exec: &mut Exec) -> Result<CaseInfo, Fail> {
    let mut ctxs = vec![ZERO];
    for _ in 0..2 {
        ctxs.push(must("register", exec.append(&spec("xs.context", ZERO, None), None))?.id128());
    }
    for i in 0..case.pre {
        must("pre", exec.append(&spec(TOPICS[i as usize % 3], ctxs[i as usize % 3], None), None))?;
    }
    let writers: Vec<WriterSpec> = match case.stress {
        Some((w, n)) => (0..w)
            .map(|k| WriterSpec {
                start_delay_us: 0,
                frames: (0..n)
                    .map(|i| {
                        // (every seventh frame of the stress writers registers a context)
                        if i % 7 == 6 {
                            (spec("xs.context", ZERO, None), 0)
                        } else {
                            (spec(TOPICS[(i % 3) as usize], ctxs[((k + i) % 3) as usize], None), 0)
                        }
                    })
                    .collect(),
                remove_lag: case.remove_lag,
            })
            .collect(),
        None => case
            .writers
            .iter()
            .map(|fs| WriterSpec {
                start_delay_us: 0,
                frames: fs
                    .iter()
                    .enumerate()
                    .map(|(fi, f)| {
                        (
                            if f.stale_id && !f.register {
                                let mut s = spec(
                                    TOPICS[f.topic as usize % 3],
                                    ctxs[f.ctx as usize % 3],
                                    if f.ephemeral { Some(WTtl::Ephemeral) } else { None },
                                );
                                s.id = Some((1u128 << 80) + fi as u128 + 1);
                                s
                            } else if f.register {
                                spec("xs.context", ZERO, None)
                            } else {
                                spec(
                                    TOPICS[f.topic as usize % 3],
                                    ctxs[f.ctx as usize % 3],
                                    if f.ephemeral { Some(WTtl::Ephemeral) } else { None },
                                )
                            },
                            f.pause_us as u64,
                        )
                    })
                    .collect(),
                remove_lag: case.remove_lag,
            })
            .collect(),
    };
    let total: usize = writers.iter().map(|w| w.frames.len()).sum();
    let rules: Vec<Rule> = case
        .rules
        .iter()
        .map(|r| Rule {
            actor: r.writer.map(|w| format!("w{}", w as usize % writers.len().max(1))),
            label: APPEND_LABELS[r.label as usize % APPEND_LABELS.len()].to_string(),
            occurrence: r.occurrence.map(|o| o as u32),
            delay_us: DELAYS_US[r.delay as usize % DELAYS_US.len()],
            hold: None,
        })
        .collect();
    let followers: Vec<FollowSpec> = case
        .followers
        .iter()
        .map(|(tail, c)| FollowSpec {
            opts: ROpts {
                follow: Some(0),
                tail: *tail,
                last_id: None,
                limit: None,
                ctx: c.map(|c| ctxs[c as usize % 3]),
            },
            ..Default::default()
        })
        .collect();
    let sspec = ScenarioSpec {
        rules,
        writers,
        followers,
        pollers: case
            .pollers
            .iter()
            .map(|(c, iv)| PollSpec {
                ctx: c.map(|c| ctxs[c as usize % 3]),
                interval_us: *iv as u64,
                limit: None,
            })
            .collect(),
        expect_min: vec![],
        settle_ms: 30,
        max_wait_ms: 0,
        log_events: true,
    };
    let mut res = must("scenario", exec.scenario(&sspec))?;
    // "never received" is only conclusive once the follower has had ample time: the scenario
    // returns after a short quiet period, which a loaded machine can produce on its own; keep
    // looking at the (still running) followers before reporting a missing delivery
    let deadline = Instant::now() + std::time::Duration::from_secs(10);
    let mut verdict = evaluate(case, &sspec, &res, total);
    while let Err(f) = &verdict {
        if f.class != Class::Follow || Instant::now() > deadline {
            break;
        }
        std::thread::sleep(std::time::Duration::from_millis(5));
        let again = must(
            "scenario-peek",
            exec.call(&crate::exec::Cmd::ScenarioPeek)
                .map(|v| serde_json::from_value::<Vec<FollowResult>>(v).unwrap_or_default()),
        )?;
        if again.len() == res.followers.len() {
            res.followers = again;
        }
        verdict = evaluate(case, &sspec, &res, total);
    }
    verdict
}

pub fn in_scope(w: &WFrame, ctx: Option<u128>) -> bool {
    ctx.map(|c| w.ctx128() == c).unwrap_or(true)
}

fn evaluate(case: &C02Case, sspec: &ScenarioSpec, res: &ScenarioResult, total: usize) -> Result<CaseInfo, Fail> {
    let mut checks = 0u64;
    // every append must have succeeded, ids per writer strictly increasing
    let mut appended: BTreeMap<String, (WFrame, u64, u64)> = BTreeMap::new();
    for (k, w) in res.writers.iter().enumerate() {
        let mut prev: Option<u128> = None;
        for (t1, t2, r) in &w.appends {
            match r {
                Ok(f) => {
                    if let Some(p) = prev {
                        if f.id128() <= p {
                            return Err(Fail::new(
                                Class::IdOrder,
                                format!("writer {k}: append returned id {} after {}", f.id, id_str(p)),
                            ));
                        }
                    }
                    prev = Some(f.id128());
                    appended.insert(f.id.clone(), (f.clone(), *t1, *t2));
                }
                Err(e) => return Err(Fail::new(Class::ContextRule, format!("writer {k}: append failed: {e}"))),
            }
        }
    }
    let removed: BTreeSet<String> = res.writers.iter().flat_map(|w| w.removed.iter().cloned()).collect();
    if appended.len() != total {
        return Err(infra(format!("scenario ran {} of {total} appends", appended.len())));
    }
    // final state: strictly increasing, holds every stored append exactly once
    let fin = &res.final_all;
    for w in fin.windows(2) {
        if w[1].id128() <= w[0].id128() {
            return Err(order(format!("final read not strictly increasing: {} then {}", w[0].id, w[1].id)));
        }
    }
    let fin_ids: BTreeSet<&String> = fin.iter().map(|w| &w.id).collect();
    for (id, (f, _, _)) in &appended {
        let stored = f.ttl != Some(WTtl::Ephemeral) && !removed.contains(id);
        if stored != fin_ids.contains(id) {
            return Err(Fail::new(
                if stored { Class::Missing } else { Class::ExtraEphemeral },
                format!("appended frame {id} (ttl {:?}) stored={}", f.ttl, fin_ids.contains(id)),
            ));
        }
    }
    checks += 1;
    // pollers: a client that keeps reading after the last frame it saw gets every frame exactly once
    for (k, p) in res.pollers.iter().enumerate() {
        let scope = sspec.pollers[k].ctx;
        let mut seen: Vec<&WFrame> = Vec::new();
        let mut high: Option<u128> = None;
        for (t, _last, frames) in &p.polls {
            for f in frames {
                if let Some(h) = high {
                    if f.id128() <= h {
                        return Err(order(format!(
                            "poller {k} (t={t}us) received frame {} after having seen {}",
                            f.id,
                            id_str(h)
                        )));
                    }
                }
                if !in_scope(f, scope) {
                    return Err(Fail::new(Class::ScopeContext, format!("poller {k} got frame {} of context {}", f.id, f.ctx)));
                }
                high = Some(f.id128());
                seen.push(f);
            }
        }
        let want: Vec<&WFrame> = fin.iter().filter(|w| in_scope(w, scope)).collect();
        checks += 1;
        // (frames a writer removed again may have been seen before they went)
        let seen: Vec<&WFrame> = seen.into_iter().filter(|w| !removed.contains(&w.id)).collect();
        if seen != want {
            let seen_ids: BTreeSet<&String> = seen.iter().map(|w| &w.id).collect();
            let missed: Vec<&String> = want.iter().map(|w| &w.id).filter(|i| !seen_ids.contains(i)).collect();
            return Err(order(format!(
                "poller {k} (scope {:?}) reading with last-id saw {} frames, the stream holds {}: never saw {:?} — a frame became visible below an id the poller had already observed",
                scope.map(id_str),
                seen.len(),
                want.len(),
                missed
            )));
        }
    }
    // followers: increasing, nothing out of scope, complete
    for (k, f) in res.followers.iter().enumerate() {
        let o = &sspec.followers[k].opts;
        let mut prev: Option<u128> = None;
        let mut got: BTreeSet<&String> = BTreeSet::new();
        for it in &f.items {
            let w = &it.frame;
            if w.topic == "xs.threshold" || w.topic == "xs.pulse" {
                continue;
            }
            if let Some(p) = prev {
                if w.id128() <= p {
                    return Err(order(format!(
                        "follower {k} ({o:?}) was sent frame {} after {}",
                        w.id,
                        id_str(p)
                    )));
                }
            }
            prev = Some(w.id128());
            if !in_scope(w, o.ctx) {
                return Err(Fail::new(Class::ScopeContext, format!("follower {k} got frame {} of context {}", w.id, w.ctx)));
            }
            got.insert(&w.id);
        }
        // frames that certainly had to be delivered: stored frames in scope (from the start),
        // or appended after the subscription was in place (tail)
        for w in fin.iter().filter(|w| in_scope(w, o.ctx)) {
            let must_have = if o.tail {
                appended
                    .get(&w.id)
                    .map(|(_, t1, _)| *t1 > f.subscribed_at_us + 2000)
                    .unwrap_or(false)
            } else {
                true
            };
            if must_have && !got.contains(&w.id) {
                return Err(Fail::new(
                    Class::Follow,
                    format!(
                        "follower {k} ({o:?}) never received stored frame {} (got {} frames, closed={})",
                        w.id,
                        got.len(),
                        f.closed
                    ),
                ));
            }
        }
        if f.closed {
            return Err(Fail::new(Class::Follow, format!("follower {k}: stream ended by itself")));
        }
        checks += 1;
    }
    // non-triviality: two appends overlapped in time while a reader observed something in between
    let mut overlapped = false;
    let iv: Vec<(u64, u64)> = appended.values().map(|(_, a, b)| (*a, *b)).collect();
    'o: for (i, a) in iv.iter().enumerate() {
        for b in iv.iter().skip(i + 1) {
            if a.0 < b.1 && b.0 < a.1 {
                let lo = a.0.max(b.0);
                let hi = a.1.min(b.1);
                let observed = res.pollers.iter().any(|p| p.polls.iter().any(|(t, _, _)| *t >= lo && *t <= hi + 500))
                    || res.followers.iter().any(|f| f.items.iter().any(|i| i.t_us >= lo && i.t_us <= hi + 500));
                if observed {
                    overlapped = true;
                    break 'o;
                }
            }
        }
    }
    let mut labels = vec![];
    if !removed.is_empty() {
        labels.push("writers-remove-earlier-frames".to_string());
    }
    if case.stress.is_some() {
        labels.push("hook-free-stress".to_string());
    } else {
        labels.push("directed-schedule".to_string());
    }
    if overlapped {
        labels.push("appends-overlapped-under-observation".into());
    }
    if res.hold_timeouts > 0 {
        labels.push("hold_timeout".into());
    }
    let shape = hash64(
        format!(
            "{:?}{:?}{:?}{:?}{:?}",
            case.writers.iter().map(|w| w.len()).collect::<Vec<_>>(),
            case.pollers,
            case.followers,
            case.rules.iter().map(|r| (r.writer, r.label, r.occurrence, r.delay)).collect::<Vec<_>>(),
            case.stress
        )
        .as_bytes(),
    );
    Ok(CaseInfo {
        nontrivial: overlapped,
        shape,
        labels,
        known: vec![],
        checks,
    })
}

pub fn run(tier: Tier, seed: u64, replay: Option<&std::path::Path>) -> i32 {
    let started = Instant::now();
    let report_as = |_c: Class| "C02".to_string();
    let test_rep = |case: &C02Case| -> Result<CaseInfo, Fail> {
        // schedule-dependent: a replay is tried several times
        let mut last = run_case(case)?;
        for _ in 0..4 {
            last = run_case(case)?;
        }
        Ok(last)
    };
    if let Some(path) = replay {
        let case: C02Case = match load_replay(path) {
            Ok(c) => c,
            Err(e) => {
                eprintln!("cannot load replay: {e}");
                return 2;
            }
        };
        return match test_rep(&case) {
            Ok(_) => {
                println!("replay {} passes", path.display());
                0
            }
            Err(f) if f.msg.starts_with(INFRA) => {
                eprintln!("INFRASTRUCTURE: {}", f.msg);
                2
            }
            Err(f) => {
                println!("failure class={:?}: {}", f.class, f.msg);
                println!("VIOLATION property=C02 replay={}", path.display());
                1
            }
        };
    }
    for path in replay_files("C02") {
        if let Ok(case) = load_replay::<C02Case>(&path) {
            if let Err(f) = test_rep(&case) {
                if f.msg.starts_with(INFRA) {
                    eprintln!("INFRASTRUCTURE: {}", f.msg);
                    return 2;
                }
                println!("failure class={:?}: {}", f.class, f.msg);
                println!("VIOLATION property=C02 replay={}", path.display());
                return 1;
            }
        }
    }
    let cases = match tier {
        Tier::Quick => 2400,
        Tier::Thorough => 40_000,
    };
    let out = run_sharded("C02", seed, cases, 150, strategy, run_case);
    let report = Report {
        prop: "C02",
        tier,
        seed,
        level: "exploration",
        rule: "scenarios inside one executor: 2..4 appender threads x 1..4 frames over 3 contexts (some ephemeral), 1..2 pollers looping read_sync(last_id = last frame seen) in a context or over all contexts, 0..2 followers (tail / from the start), in three cases out of ten with writers that remove the frame they appended one or two appends earlier (a reader's cursor may then name a frame that is gone; such frames may or may not have been seen), under a generated schedule: per (writer, sync point of Store::append in {after id assignment, before commit, after commit, before broadcast, after broadcast}, occurrence) a delay of 0.2/1/5/20 ms; one case in ten is a hook-free stress (4..8 writers x 20..60 appends). Oracle on the event log: per-writer ids increase; every poll sequence strictly increasing; the concatenation of a poller's results equals the final stream in its scope (a frame that became visible below an already observed id shows as a frame the poller never saw); each follower's sequence strictly increasing, in scope and complete. Non-trivial = two appends overlapped in time while a poll or a delivery fell into the overlap. Distinct by (writer sizes, readers, schedule) hash.",
        assumptions: vec![
            "interleavings are sampled at the granularity of the sync points plus natural jitter; not exhaustive".into(),
            "a tail follower is only required to see frames whose append started 2 ms after its subscription was in place".into(),
        ],
        extra: json!({}),
    };
    finish(&report, out, started, report_as)
}
