//! C03: a follower receives every frame exactly once, in order, across the
//! history -> live hand-off; exactly one threshold marker in the right place.

use std::collections::{BTreeMap, BTreeSet};
use std::time::Instant;

use proptest::prelude::*;
use proptest::strategy::BoxedStrategy;
use serde::{Deserialize, Serialize};
use serde_json::json;

use crate::client::*;
use crate::director::*;
use crate::hist::{infra, must};
use crate::model::*;
use crate::props::c02::{in_scope, DELAYS_US};
use crate::runner::*;
use crate::wire::*;

pub const READ_LABELS: &[(&str, &str)] = &[
    ("f0", "read.after_subscribe"),
    ("hist", "read.hist.before_send"),
    ("hist", "read.hist.before_threshold"),
    ("hist", "read.hist.before_done"),
    ("live", "read.live.after_done"),
    ("live", "read.live.after_recv"),
    ("w", "append.after_id"),
    ("w", "insert.before_commit"),
    ("w", "append.after_commit"),
    ("w", "append.after_broadcast"),
];

#[derive(Clone, Debug, Serialize, Deserialize)]
pub enum Start {
    Beginning,
    /// last-id = the k-th pre-existing frame
    AfterExisting(u16),
    /// last-id = a frame that was removed before the read
    AfterRemoved,
    /// last-id = the newest pre-existing frame
    AfterLast,
    /// last-id = a stored frame whose id lies ahead of every id this store will mint (imported
    /// from a machine whose clock runs ahead): nothing stored follows it, yet whatever is
    /// appended after the subscription must still be delivered
    AfterFuture,
    Tail,
}

#[derive(Clone, Debug, Serialize, Deserialize)]
pub struct SRule {
    pub point: u8,
    pub writer: u8,
    pub occurrence: Option<u8>,
    pub delay: u8,
}

#[derive(Clone, Debug, Serialize, Deserialize)]
pub struct C03Case {
    /// pre-existing frames (0, a few, or more than the 100-slot delivery buffer)
    pub pre: u16,
    /// how many of them are removed again before the read
    pub pre_removed: u8,
    pub start: Start,
    pub ctx: Option<u8>,
    /// per writer: start delay (us) and frames (ctx, ephemeral, pause us)
    pub writers: Vec<(u16, Vec<(u8, bool, u16)>)>,
    pub pace_us: u16,
    pub rules: Vec<SRule>,
    /// every k-th pre-existing frame carries `time:1` and has expired (uncollected) when the
    /// read begins: the replay has to pass over it
    #[serde(default)]
    pub expired_every: u8,
}

pub fn strategy() -> BoxedStrategy<C03Case> {
    (
        prop_oneof![2 => Just(0u16), 4 => 1u16..=5, 2 => 6u16..=40, 3 => 101u16..=300],
        0u8..3,
        prop_oneof![
            4 => Just(Start::Beginning),
            2 => any::<u16>().prop_map(Start::AfterExisting),
            1 => Just(Start::AfterRemoved),
            1 => Just(Start::AfterLast),
            1 => Just(Start::AfterFuture),
            2 => Just(Start::Tail),
        ],
        proptest::option::weighted(0.4, 0u8..3),
        proptest::collection::vec(
            (
                prop_oneof![2 => Just(0u16), 3 => 0u16..3000, 1 => 3000u16..20000],
                proptest::collection::vec(
                    (0u8..3, prop_oneof![2 => Just(false), 1 => Just(true)], prop_oneof![2 => Just(0u16), 1 => 0u16..1500]),
                    1..=5,
                ),
            ),
            1..=3,
        ),
        prop_oneof![3 => Just(0u16), 1 => 0u16..300],
        proptest::collection::vec(
            (0..READ_LABELS.len() as u8, 0u8..3, proptest::option::weighted(0.6, 0u8..5), 0..DELAYS_US.len() as u8)
                .prop_map(|(point, writer, occurrence, delay)| SRule {
                    point,
                    writer,
                    occurrence,
                    delay,
                }),
            0..=4,
        ),
        prop_oneof![3 => Just(0u8), 1 => 2u8..40],
    )
        .prop_map(|(pre, pre_removed, start, ctx, writers, pace_us, rules, expired_every)| C03Case {
            pre,
            pre_removed,
            start,
            ctx,
            writers,
            pace_us,
            rules,
            expired_every,
        })
        .boxed()
}

fn spec(topic: &str, ctx: u128, ttl: Option<WTtl>) -> FrameSpec {
    FrameSpec {
        topic: topic.to_string(),
        ctx,
        id: None,
        hash: None,
        meta: None,
        ttl,
    }
}

pub struct Prepared {
    pub ctxs: Vec<u128>,
    pub pre: Vec<WFrame>,
    pub removed: Vec<WFrame>,
}

/// Registers two contexts and builds the pre-history round-robin over the three
/// contexts, removing the first `pre_removed` frames of it again.
pub fn prepare(exec: &mut Exec, pre: u16, pre_removed: u8) -> Result<Prepared, Fail> {
    prepare_with(exec, pre, pre_removed, 0)
}

pub fn prepare_with(exec: &mut Exec, pre: u16, pre_removed: u8, expired_every: u8) -> Result<Prepared, Fail> {
    let mut ctxs = vec![ZERO];
    let mut frames = Vec::new();
    for _ in 0..2 {
        let reg = must("register", exec.append(&spec("xs.context", ZERO, None), None))?;
        ctxs.push(reg.id128());
        // the registrations are part of the zero context's history
        frames.push(reg);
    }
    let mut removed = Vec::new();
    for i in 0..pre {
        if expired_every > 0 && i % expired_every as u16 == expired_every as u16 - 1 {
            // gone for every reader by the time the read begins, but still on disk
            removed.push(must(
                "pre-history (expiring)",
                exec.append(&spec("e", ctxs[i as usize % 3], Some(WTtl::Time(1))), None),
            )?);
            continue;
        }
        frames.push(must(
            "pre-history",
            exec.append(&spec(if i % 2 == 0 { "h" } else { "g" }, ctxs[i as usize % 3], None), None),
        )?);
    }
    if expired_every > 0 {
        std::thread::sleep(std::time::Duration::from_millis(4));
    }
    for _ in 0..pre_removed {
        if frames.len() > 3 {
            // remove from the middle (never a registration) so that a last-id on a removed
            // frame has frames on both sides
            let w = frames.remove(2 + (frames.len() - 2) / 2);
            must("remove", exec.remove(w.id128()))?;
            removed.push(w);
        }
    }
    Ok(Prepared {
        ctxs,
        pre: frames,
        removed,
    })
}

pub fn build_rules(rules: &[SRule], n_writers: usize) -> Vec<Rule> {
    rules
        .iter()
        .map(|r| {
            let (actor, label) = READ_LABELS[r.point as usize % READ_LABELS.len()];
            let actor = if actor == "w" {
                format!("w{}", r.writer as usize % n_writers.max(1))
            } else {
                actor.to_string()
            };
            Rule {
                actor: Some(actor),
                label: label.to_string(),
                occurrence: r.occurrence.map(|o| o as u32),
                delay_us: DELAYS_US[r.delay as usize % DELAYS_US.len()],
                hold: None,
            }
        })
        .collect()
}

pub fn run_case(case: &C03Case) -> Result<CaseInfo, Fail> {
    let dir = StoreDir::new();
    let mut exec = Exec::spawn(&dir.path, &ExecOpts::default()).map_err(|e| infra(format!("spawn: {e}")))?;
    let r = run_in(case, &mut exec);
    exec.kill_ref();
    r
}

fn run_in(case: &C03Case, exec: &mut Exec) -> Result<CaseInfo, Fail> {
    let mut p = prepare_with(exec, case.pre, case.pre_removed, case.expired_every)?;
    let future_id = scru128::Scru128Id::from_fields((1u64 << 47) + 5, 0, 0, 1).to_u128();
    if matches!(case.start, Start::AfterFuture) {
        let fs = FrameSpec {
            topic: "future".into(),
            ctx: ZERO,
            id: Some(future_id),
            hash: None,
            meta: None,
            ttl: None,
        };
        must("import future frame", exec.import(&fs))?;
        p.pre.push(WFrame {
            id: id_str(future_id),
            ctx: id_str(ZERO),
            topic: "future".into(),
            hash: None,
            meta: None,
            ttl: None,
        });
    }
    let scope = case.ctx.map(|c| p.ctxs[c as usize % 3]);
    let (tail, last_id) = match &case.start {
        Start::Beginning => (false, None),
        Start::Tail => (true, None),
        Start::AfterLast => (false, p.pre.last().map(|w| w.id128())),
        Start::AfterFuture => (false, Some(future_id)),
        Start::AfterRemoved => (false, p.removed.first().map(|w| w.id128())),
        Start::AfterExisting(k) => (
            false,
            crate::gen::pick(*k, p.pre.len()).map(|i| p.pre[i].id128()),
        ),
    };
    let writers: Vec<WriterSpec> = case
        .writers
        .iter()
        .map(|(sd, fs)| WriterSpec {
            remove_lag: None,
            start_delay_us: *sd as u64,
            frames: fs
                .iter()
                .map(|(c, eph, pause)| {
                    (
                        spec("live", p.ctxs[*c as usize % 3], if *eph { Some(WTtl::Ephemeral) } else { None }),
                        *pause as u64,
                    )
                })
                .collect(),
        })
        .collect();
    let n_appends: usize = writers.iter().map(|w| w.frames.len()).sum();
    let opts = ROpts {
        follow: Some(0),
        tail,
        last_id,
        limit: None,
        ctx: scope,
    };
    let _ = n_appends;
    let sspec = ScenarioSpec {
        rules: build_rules(&case.rules, writers.len()),
        writers,
        followers: vec![FollowSpec {
            opts: opts.clone(),
            pace_us: case.pace_us as u64,
            ..Default::default()
        }],
        pollers: vec![],
        // wait until nothing more can come: the exact expectation is computed afterwards,
        // so ask for an upper bound and rely on max_wait for the rest
        expect_min: vec![],
        settle_ms: 25,
        max_wait_ms: 0,
        log_events: true,
    };
    let mut res = must("scenario", exec.scenario(&sspec))?;
    // the scenario returns right after the writers finish; poll the follower until it has
    // everything the oracle demands (bounded), using a second, rule-free scenario round
    let deadline = Instant::now() + std::time::Duration::from_secs(10);
    let mut verdict = evaluate(case, &p, &opts, &res);
    while let Err(f) = &verdict {
        if f.class != Class::Follow || Instant::now() > deadline {
            break;
        }
        std::thread::sleep(std::time::Duration::from_millis(5));
        let again = must(
            "scenario-tail",
            exec.call(&crate::exec::Cmd::ScenarioPeek).map(|v| {
                serde_json::from_value::<Vec<FollowResult>>(v).unwrap_or_default()
            }),
        )?;
        if let Some(f0) = again.into_iter().next() {
            res.followers[0] = f0;
        }
        verdict = evaluate(case, &p, &opts, &res);
    }
    let mut info = verdict?;
    // the same start position and scope once more as a following GET / (one case in three;
    // NDJSON or SSE), on the now quiescent store: history, one threshold, then live frames
    if case.pre % 3 == 0 {
        let http_opts = ROpts {
            follow: Some(0),
            tail: opts.tail,
            last_id: opts.last_id,
            limit: None,
            ctx: opts.ctx,
        };
        let sse = case.pre % 2 == 1 || case.pace_us % 2 == 1;
        info.checks += super::httpfollow::check(exec, &http_opts, sse, opts.ctx.unwrap_or(ZERO))?;
        info.labels.push(format!("http-follow-{}", if sse { "sse" } else { "ndjson" }));
    }
    Ok(info)
}

fn evaluate(case: &C03Case, p: &Prepared, opts: &ROpts, res: &ScenarioResult) -> Result<CaseInfo, Fail> {
    let f = &res.followers[0];
    let fin = &res.final_all;
    // what was appended during the scenario
    let mut appended: BTreeMap<String, (WFrame, u64, u64)> = BTreeMap::new();
    for w in &res.writers {
        for (t1, t2, r) in &w.appends {
            match r {
                Ok(fr) => {
                    appended.insert(fr.id.clone(), (fr.clone(), *t1, *t2));
                }
                Err(e) => return Err(Fail::new(Class::ContextRule, format!("append failed: {e}"))),
            }
        }
    }
    let pre_ids: BTreeSet<&String> = p.pre.iter().map(|w| &w.id).collect();
    let after_start = |w: &WFrame| opts.last_id.map(|l| w.id128() > l).unwrap_or(true);
    // delivered real frames
    let mut real: Vec<&WFrame> = Vec::new();
    let mut thresholds = Vec::new();
    for (i, it) in f.items.iter().enumerate() {
        match it.frame.topic.as_str() {
            "xs.threshold" => thresholds.push(i),
            "xs.pulse" => {}
            _ => real.push(&it.frame),
        }
    }
    let mut prev: Option<u128> = None;
    let mut got: BTreeSet<&String> = BTreeSet::new();
    for w in &real {
        if let Some(pv) = prev {
            if w.id128() <= pv {
                return Err(Fail::new(
                    Class::Order,
                    format!("follower was sent frame {} after {} ({:?})", w.id, id_str(pv), opts),
                ));
            }
        }
        prev = Some(w.id128());
        got.insert(&w.id);
        if !in_scope(w, opts.ctx) {
            return Err(Fail::new(Class::ScopeContext, format!("follower scoped to {:?} got frame {} of context {}", opts.ctx.map(id_str), w.id, w.ctx)));
        }
        // (a frame appended after the read was called is delivered whatever its id: with a
        // cursor ahead of the store's clock it is smaller than the cursor)
        let appended_since = appended.get(&w.id).map(|(_, _, t2)| *t2 > f.called_at_us).unwrap_or(false);
        if !after_start(w) && !appended_since {
            return Err(Fail::new(Class::ScopeLastId, format!("follower got frame {} at or before its last-id", w.id)));
        }
        // nothing that should not exist for this reader
        let known = if pre_ids.contains(&w.id) {
            !opts.tail
        } else if let Some((fr, t1, _)) = appended.get(&w.id) {
            // an ephemeral frame appended entirely before the read was called can not be delivered
            !(fr.ttl == Some(WTtl::Ephemeral) && *t1 + 50_000 < f.called_at_us)
        } else {
            false
        };
        if !known {
            return Err(Fail::new(
                Class::ExtraUnknown,
                format!("follower ({opts:?}) received frame {} ({:?}) which it must not get (removed, foreign or before its start)", w.id, w.topic),
            ));
        }
        if let Some((fr, _, _)) = appended.get(&w.id) {
            if *fr != **w {
                return Err(Fail::new(Class::Field, format!("follower received {:?}, appended was {:?}", w, fr)));
            }
        }
    }
    // must-have set
    let mut known_hits = Vec::new();
    let last_before_threshold: Option<u128> = thresholds.first().and_then(|ti| {
        f.items[..*ti]
            .iter()
            .rev()
            .find(|it| it.frame.topic != "xs.pulse" && it.frame.topic != "xs.threshold")
            .map(|it| it.frame.id128())
    });
    let appended_after_sub = |w: &WFrame| appended.get(&w.id).map(|(_, t1, _)| *t1 > f.subscribed_at_us).unwrap_or(false);
    for w in fin.iter().filter(|w| in_scope(w, opts.ctx) && (after_start(w) || appended_after_sub(w))) {
        let must_have = if opts.tail {
            appended.get(&w.id).map(|(_, t1, _)| *t1 > f.subscribed_at_us).unwrap_or(false)
        } else {
            true
        };
        if must_have && !got.contains(&w.id) {
            // conclusive once a later frame has been delivered (order is guaranteed); otherwise
            // it may still be on its way and the caller waits (Class::Follow)
            let conclusive = prev.map(|p| p > w.id128()).unwrap_or(false);
            return Err(Fail::new(
                if conclusive { Class::Missing } else { Class::Follow },
                format!(
                    "follower ({opts:?}) has not received stored frame {} ({} of its frames delivered, closed={})",
                    w.id,
                    real.len(),
                    f.closed
                ),
            ));
        }
    }
    for (id, (fr, t1, _)) in &appended {
        if fr.ttl == Some(WTtl::Ephemeral) && in_scope(fr, opts.ctx) && *t1 > f.subscribed_at_us && !got.contains(id) {
            // recorded finding: an ephemeral frame appended while the replay is still running is
            // dropped when the replay afterwards delivers a stored frame with a greater id
            let sig = "ephemeral-lost-during-replay";
            let matches_sig = !opts.tail && last_before_threshold.map(|l| fr.id128() < l).unwrap_or(false);
            if matches_sig && known().lists(sig) {
                known_hits.push(sig.to_string());
                continue;
            }
            // conclusive only once the replay is over (its threshold is out): until then neither
            // the recorded finding's signature nor a genuine loss can be told apart
            let conclusive = prev.map(|p| p > fr.id128()).unwrap_or(false) && (opts.tail || !thresholds.is_empty());
            return Err(Fail::new(
                if conclusive { Class::Missing } else { Class::Follow },
                format!(
                    "follower ({opts:?}) has not received ephemeral frame {id} appended {} us after it subscribed (last frame before its threshold: {:?})",
                    t1 - f.subscribed_at_us,
                    last_before_threshold.map(id_str)
                ),
            ));
        }
    }
    if f.closed {
        return Err(Fail::new(Class::Follow, "the follower's stream ended by itself".to_string()));
    }
    // threshold: exactly one when replaying history without a limit, none for tail
    let want_thresholds = if opts.tail { 0 } else { 1 };
    if thresholds.len() != want_thresholds {
        return Err(Fail::new(
            Class::Follow,
            format!("{} xs.threshold markers delivered, expected {want_thresholds} ({opts:?})", thresholds.len()),
        ));
    }
    if let Some(ti) = thresholds.first() {
        // every frame that existed when the read began comes before it
        for it in &f.items[*ti + 1..] {
            let w = &it.frame;
            let existed = pre_ids.contains(&w.id)
                || appended.get(&w.id).map(|(_, _, t2)| *t2 < f.called_at_us).unwrap_or(false);
            if existed {
                return Err(Fail::new(
                    Class::Follow,
                    format!("frame {} existed when the read began but was delivered after xs.threshold", w.id),
                ));
            }
        }
    }
    // non-triviality from the event log: an append landed between subscribe and the hand-off
    let t_sub = res
        .events
        .iter()
        .find(|e| e.label == "read.after_subscribe")
        .map(|e| e.t_us);
    let t_done = res
        .events
        .iter()
        .find(|e| e.label == "read.live.after_done")
        .map(|e| e.t_us)
        .or(if opts.tail { t_sub.map(|t| t + 2000) } else { None });
    let mut during = false;
    if let (Some(a), Some(b)) = (t_sub, t_done) {
        during = res
            .events
            .iter()
            .any(|e| e.label == "append.after_commit" && e.t_us >= a && e.t_us <= b);
    }
    let mut labels = vec![];
    for (on, name) in [
        (case.pre > 100, "history-longer-than-delivery-buffer"),
        (case.pre == 0, "empty-history"),
        (case.expired_every > 0 && case.pre >= case.expired_every as u16, "expired-uncollected-frames-in-history"),
        (opts.tail, "tail"),
        (opts.last_id.is_some(), "last-id"),
        (opts.ctx.is_some(), "context-scoped"),
        (during, "append-during-handoff"),
        (appended.values().any(|(f, _, _)| f.ttl == Some(WTtl::Ephemeral)), "ephemeral-appends"),
        (res.hold_timeouts > 0, "hold_timeout"),
    ] {
        if on {
            labels.push(name.to_string());
        }
    }
    Ok(CaseInfo {
        nontrivial: during,
        shape: hash64(
            format!(
                "{}{}{:?}{:?}{:?}{:?}",
                case.pre.min(101),
                case.pre_removed,
                case.start,
                case.ctx,
                case.writers.iter().map(|w| (w.0 / 1000, w.1.len())).collect::<Vec<_>>(),
                case.rules.iter().map(|r| (r.point, r.occurrence, r.delay)).collect::<Vec<_>>()
            )
            .as_bytes(),
        ),
        labels,
        known: known_hits,
        checks: 1,
    })
}

pub fn run(tier: Tier, seed: u64, replay: Option<&std::path::Path>) -> i32 {
    let started = Instant::now();
    let report_as = |_c: Class| "C03".to_string();
    let test_rep = |case: &C03Case| -> Result<CaseInfo, Fail> {
        let mut last = run_case(case)?;
        for _ in 0..4 {
            last = run_case(case)?;
        }
        Ok(last)
    };
    if let Some(path) = replay {
        let case: C03Case = match load_replay(path) {
            Ok(c) => c,
            Err(e) => {
                eprintln!("cannot load replay: {e}");
                return 2;
            }
        };
        return match test_rep(&case) {
            Ok(_) => {
                println!("replay {} passes", path.display());
                0
            }
            Err(f) if f.msg.starts_with(INFRA) => {
                eprintln!("INFRASTRUCTURE: {}", f.msg);
                2
            }
            Err(f) => {
                println!("failure class={:?}: {}", f.class, f.msg);
                println!("VIOLATION property=C03 replay={}", path.display());
                1
            }
        };
    }
    for path in replay_files("C03") {
        if let Ok(case) = load_replay::<C03Case>(&path) {
            if let Err(f) = test_rep(&case) {
                if f.msg.starts_with(INFRA) {
                    eprintln!("INFRASTRUCTURE: {}", f.msg);
                    return 2;
                }
                println!("failure class={:?}: {}", f.class, f.msg);
                println!("VIOLATION property=C03 replay={}", path.display());
                return 1;
            }
        }
    }
    let cases = match tier {
        Tier::Quick => 2400,
        Tier::Thorough => 40_000,
    };
    let out = run_sharded("C03", seed, cases, 150, strategy, run_case);
    let report = Report {
        prop: "C03",
        tier,
        seed,
        level: "exploration",
        rule: "one follower per scenario over a pre-existing history of 0 / 1..5 / 6..40 / 101..300 frames (round-robin over 3 contexts, 0..2 of them removed again), start = beginning / last-id on an existing, a removed or the newest frame / tail, optional context scope, consumer pace 0..300 us per frame; 1..3 appender threads (start delays 0..20 ms) appending stored and ephemeral frames before, during and after the replay; schedule = 0..4 delays (0.2/1/5/20 ms) at the sync points of Store::read (after subscribe, before each historical delivery, before threshold, before done, after done, after each live receive) and of Store::append. Oracle: delivered real frames strictly increasing, in scope, after the start position, nothing removed/foreign; every stored frame in scope after the start position delivered (tail: those appended after the subscription); every ephemeral frame appended after read() returned delivered; exactly one xs.threshold (none for tail) with every frame that existed when the read began before it. Non-trivial = an append committed between `read.after_subscribe` and `read.live.after_done` in the event log. Distinct by parameter hash.",
        assumptions: vec![
            "frames appended while the read() call itself is in progress are undetermined (may or may not be delivered)".into(),
            "completion is awaited for at most 10 s before a missing frame is reported".into(),
        ],
        extra: json!({}),
    };
    finish(&report, out, started, report_as)
}
