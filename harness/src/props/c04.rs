//! C04: acknowledged writes survive a crash; each write is all-or-nothing.
//!
//! A generated workload runs in an executor that has the LD_PRELOAD crash shim
//! loaded; the process is SIGKILLed at a generated (quick) or every (thorough)
//! file-system event of the workload, optionally as a power-loss image (journal
//! bytes written since the last fsync zeroed, except a torn prefix). The store is
//! then reopened in a fresh process and observed in full.

use std::collections::BTreeSet;
use std::time::Instant;

use proptest::prelude::*;
use proptest::strategy::BoxedStrategy;
use serde::{Deserialize, Serialize};
use serde_json::json;

use crate::client::*;
use crate::gen::*;
use crate::hist::*;
use crate::model::*;
use crate::runner::*;
use crate::wire::*;

#[derive(Clone, Debug, Serialize, Deserialize)]
pub struct Crash {
    /// which event of the workload (monotone map onto 1..=N)
    pub at: u16,
    pub before: bool,
    pub power: bool,
    /// quarters of the unsynced journal bytes that survive (power loss only)
    pub torn_q: u8,
}

#[derive(Clone, Debug, Serialize, Deserialize)]
pub struct C04Case {
    /// appends/imports/removes go through the HTTP API (content is streamed into the CAS by
    /// the route itself) instead of the Store API
    #[serde(default)]
    pub http: bool,
    pub layout: Layout,
    pub n_ctx: u8,
    pub ops: Vec<Op>,
    pub crash: Crash,
}

fn big_meta() -> BoxedStrategy<Option<MetaVal>> {
    prop_oneof![
        4 => Just(None),
        2 => meta_opt(MetaMode::Safe),
        3 => proptest::sample::select(vec![8000u32, 8200, 9000, 17000, 40000])
            .prop_map(|n| Some(MetaVal::O(vec![("big".to_string(), MetaVal::BigStr(n))]))),
    ]
    .boxed()
}

fn workload_op() -> BoxedStrategy<Op> {
    let p = profile("C04");
    let ctx = || prop_oneof![2 => Just(CtxSel::Zero), 3 => (0u8..3).prop_map(CtxSel::Reg)];
    let topic = || proptest::sample::select(vec!["a", "ab", "", "b", "a.b"]).prop_map(|s| s.to_string());
    prop_oneof![
        8 => (topic(), ctx(), prop_oneof![3 => Just(None), 1 => Just(Some(WTtl::Forever)), 3 => (1u32..3).prop_map(|k| Some(WTtl::Head(k))), 1 => Just(Some(WTtl::Time(0)))], big_meta(), content_small())
            .prop_map(|(topic, ctx, ttl, meta, content)| Op::Append { topic, ctx, ttl, meta, content }),
        1 => Just(Op::Register { ttl: None }),
        3 => op_strategy(&p).prop_filter("imports and removes", |o| matches!(o, Op::Import(_) | Op::Remove(_))),
        2 => any::<u16>().prop_map(|k| Op::Remove(IdSel::Known(k))),
        // an import over a stored id that moves the frame to another topic and/or context
        2 => (any::<u16>(), proptest::option::weighted(0.5, topic()), proptest::option::weighted(0.7, 0u8..4))
            .prop_map(|(target, topic, ctx)| Op::Import(ImportOp::Move { target, topic, ctx })),
        1 => Just(Op::Drain),
        1 => (any::<u16>(), proptest::sample::select(vec![0i64, 1])).prop_map(|(frame, delta)| Op::Clock { frame, delta }),
        1 => Just(Op::Read { path: ReadPath::Sync, ctx: None, last: None, limit: None }),
    ]
    .boxed()
}

pub fn strategy() -> BoxedStrategy<C04Case> {
    (
        prop_oneof![3 => Just(Layout::Plain), 1 => Just(Layout::SmallMem)],
        0u8..=2,
        proptest::collection::vec(workload_op(), 3..=12),
        (
            any::<u16>(),
            any::<bool>(),
            any::<bool>(),
            0u8..=4,
        )
            .prop_map(|(at, before, power, torn_q)| Crash {
                at,
                before,
                power,
                torn_q,
            }),
    )
        .prop_map(|(layout, n_ctx, ops, crash)| C04Case {
            http: false,
            layout,
            n_ctx,
            ops,
            crash,
        })
        .prop_flat_map(|c| (Just(c), prop_oneof![3 => Just(false), 1 => Just(true)]))
        .prop_map(|(mut c, http)| {
            c.http = http;
            if http {
                // topics must be URL-safe on this path
                for op in c.ops.iter_mut() {
                    if let Op::Append { topic, content, .. } = op {
                        if !crate::httpx::topic_is_url_safe(topic) || topic.is_empty() {
                            *topic = "t".to_string();
                        }
                        if content.is_none() {
                            *content = Some(Content::Bytes(b"http body".to_vec()));
                        }
                    }
                }
            }
            c
        })
        .boxed()
}

pub fn shim_path() -> std::path::PathBuf {
    std::env::var_os("XSV_SHIM")
        .map(std::path::PathBuf::from)
        .unwrap_or_else(|| {
            std::path::Path::new(env!("CARGO_MANIFEST_DIR"))
                .parent()
                .unwrap()
                .join("shim")
                .join("crashshim.so")
        })
}

fn shim_opts(dir: &std::path::Path, layout: Layout, log: Option<&std::path::Path>) -> ExecOpts {
    let mut env = vec![
        ("XSV_CLOCK".to_string(), "0".to_string()),
        ("LD_PRELOAD".to_string(), shim_path().to_string_lossy().to_string()),
        ("XSV_CRASH_DIR".to_string(), dir.to_string_lossy().to_string()),
    ];
    if let Some(l) = log {
        env.push(("XSV_CRASH_LOG".to_string(), l.to_string_lossy().to_string()));
    }
    ExecOpts {
        small_memtable: match layout {
            Layout::Plain => None,
            Layout::SmallMem => Some(8 * 1024),
        },
        env,
    }
}

fn died(f: &Fail) -> bool {
    f.msg.contains("the process running xs died")
}

/// Start an interpreter whose executor has the shim loaded.
fn start(layout: Layout, http: bool, log: Option<&std::path::Path>) -> Result<Interp, Fail> {
    let access = if http { Access::Http } else { Access::Api };
    let mut it = Interp::start_custom(layout, false, access, |dir| shim_opts(dir, layout, log))?;
    must("clock", it.ex().clock(Some(0)))?;
    Ok(it)
}

fn count(it: &mut Interp) -> Result<i64, Fail> {
    let v = must("crash count", it.ex().call(&crate::exec::Cmd::CrashCount))?;
    v.as_i64()
        .ok_or_else(|| infra("the crash shim is not loaded in the executor (shim/crashshim.so missing? run ./setup.sh)"))
}

/// Events the workload produces when nothing is killed (to map `at` onto).
pub fn count_events(case: &C04Case) -> Result<i64, Fail> {
    let mut it = start(case.layout, case.http, None)?;
    let r = (|| {
        for _ in 0..case.n_ctx {
            it.step(&Op::Register { ttl: None })?;
        }
        let c0 = count(&mut it)?;
        for op in &case.ops {
            it.step(op)?;
        }
        it.drain()?;
        let c1 = count(&mut it)?;
        Ok(c1 - c0)
    })();
    it.finish_ref();
    r
}

pub struct CrashOutcome {
    pub acked: usize,
    pub in_op: bool,
    pub event_kind: String,
}

pub fn run_crash(case: &C04Case, at: i64) -> Result<CrashOutcome, Fail> {
    let logdir = StoreDir::new();
    let log = logdir.path.join("events.log");
    let mut it = start(case.layout, case.http, Some(&log))?;
    let r = run_crash_in(case, at, &mut it, &log);
    it.finish_ref();
    r
}

fn run_crash_in(case: &C04Case, at: i64, it: &mut Interp, log: &std::path::Path) -> Result<CrashOutcome, Fail> {
    for _ in 0..case.n_ctx {
        it.step(&Op::Register { ttl: None })?;
    }
    must(
        "arm",
        it.ex()
            .call(&crate::exec::Cmd::CrashArm {
                at,
                before: case.crash.before,
                power: case.crash.power,
                torn_q: case.crash.torn_q.min(4),
            })
            .map(|_| ()),
    )?;
    let mut acked = 0usize;
    let mut crashed_in: Option<usize> = None;
    for (i, op) in case.ops.iter().enumerate() {
        match it.step(op) {
            Ok(()) => acked += 1,
            Err(f) if died(&f) => {
                crashed_in = Some(i);
                break;
            }
            // over HTTP the kill shows as a request without a response: confirm through the
            // control channel that the process is really gone
            Err(f) if (f.class == Class::Http || f.msg.contains("http connect")) && matches!(it.ex().call(&crate::exec::Cmd::Ping), Err(ExecErr::Died(_))) => {
                crashed_in = Some(i);
                break;
            }
            Err(mut f) => {
                if !f.msg.starts_with(INFRA) {
                    f.msg = format!("before the crash, op #{i} {}: {}", op.kind(), f.msg);
                }
                return Err(f);
            }
        }
    }
    // the executor is dead (or, if the event never came, is killed now: a plain kill after the last ack)
    let in_flight = it.in_flight.take();
    it.finish_ref();
    let event_kind = std::fs::read_to_string(log)
        .ok()
        .and_then(|s| {
            let lines: Vec<&str> = s.lines().collect();
            let killed = lines.last().map(|l| *l == "KILLED").unwrap_or(false);
            if killed && lines.len() >= 2 {
                lines[lines.len() - 2]
                    .split(' ')
                    .nth(1)
                    .map(|k| {
                        let file = lines[lines.len() - 2].split(' ').nth(2).unwrap_or("");
                        let area = if file.contains("/journals/") {
                            "journal"
                        } else if file.contains("/cacache/") {
                            "cas"
                        } else if file.contains("/segments/") || file.contains("/partitions/") {
                            "partition"
                        } else {
                            "other"
                        };
                        format!("{k}:{area}")
                    })
            } else {
                None
            }
        })
        .unwrap_or_else(|| "none".to_string());

    if std::env::var_os("XSV_TRACE").is_some() {
        eprintln!("-- acked {acked}, crashed in {crashed_in:?}, in flight {in_flight:?}");
        eprintln!("{}", std::fs::read_to_string(log).unwrap_or_default());
    }
    // ---- reopen in a fresh process, without the shim --------------------------
    it.opts = ExecOpts {
        small_memtable: None,
        env: vec![],
    };
    it.reopen_after_crash()?;

    // the operation in flight is entirely there or entirely absent
    let all = must("read_sync", it.ex().read_sync(None, None, None))?;
    let unknown: Vec<&WFrame> = all
        .iter()
        .filter(|w| !it.model.frames.contains_key(&w.id128()))
        .collect();
    match &in_flight {
        Some(InFlight::Append(spec)) => {
            if unknown.len() > 1 {
                return Err(Fail::new(
                    Class::ExtraUnknown,
                    format!("after the crash the store holds {} frames nobody was told about: {:?}", unknown.len(), unknown),
                ));
            }
            if let Some(w) = unknown.first() {
                let mut want = spec.clone();
                if want.topic == "xs.context" {
                    want.ttl = Some(WTtl::Forever);
                }
                let same = w.topic == want.topic
                    && w.ctx128() == want.ctx
                    && w.hash == want.hash
                    && w.meta == want.meta_printed()
                    && w.ttl == want.ttl;
                if !same || want.ttl == Some(WTtl::Ephemeral) {
                    return Err(Fail::new(
                        Class::ExtraUnknown,
                        format!("after the crash the store holds frame {:?} which is not the append that was in flight ({:?})", w, want),
                    ));
                }
                let w = (*w).clone();
                // through the normal path: a head:K append queues its eviction pass
                // (the restarted API has meanwhile appended a newer xs.start of its own)
                let saved = it.model.last_append_id.take();
                it.model.apply_append(spec, &w)?;
                it.model.last_append_id = saved.max(it.model.last_append_id);
                let mut s = want.clone();
                s.id = Some(w.id128());
                if s.topic == "xs.context" && s.ctx == ZERO {
                    it.ctxs.push(w.id128());
                }
                it.known.push(Known {
                    id: w.id128(),
                    spec: s,
                    removed: false,
                });
                it.topics_used.insert(w.topic.clone());
            }
        }
        Some(InFlight::Import(spec)) => {
            if !unknown.is_empty() {
                // it may be there: adopt it as undetermined, observe_all settles and cross-checks it
                let id = spec.id.unwrap();
                if unknown.len() > 1 || unknown[0].id128() != id {
                    return Err(Fail::new(
                        Class::ExtraUnknown,
                        format!("after the crash the store holds frames nobody sent: {:?}", unknown),
                    ));
                }
                it.model.apply_import(spec);
                it.known.push(Known {
                    id,
                    spec: spec.clone(),
                    removed: false,
                });
                if spec.topic == "xs.context" && spec.ctx == ZERO && !it.ctxs.contains(&id) {
                    it.ctxs.push(id);
                }
                it.topics_used.insert(spec.topic.clone());
            } else if it.model.frames.contains_key(&spec.id.unwrap()) {
                // an import over a stored id (same frame again, or amended meta/ttl/hash): the
                // frame is there either way, in its old or in its new form - entirely one of them
                let id = spec.id.unwrap();
                let got = must("get", it.ex().get(id))?;
                let new_form = WFrame {
                    id: id_str(id),
                    ctx: id_str(spec.ctx),
                    topic: spec.topic.clone(),
                    hash: spec.hash.clone(),
                    meta: spec.meta_printed(),
                    ttl: spec.ttl.clone(),
                };
                if got.as_ref() == Some(&new_form) {
                    it.model.apply_import(spec);
                    if let Some(k) = it.known.iter_mut().find(|k| k.id == id) {
                        k.spec = spec.clone();
                    }
                }
            }
        }
        Some(InFlight::Remove(id)) => {
            if !unknown.is_empty() {
                return Err(Fail::new(
                    Class::ExtraUnknown,
                    format!("after the crash the store holds frames nobody sent: {:?}", unknown),
                ));
            }
            it.model.set_maybe(*id);
        }
        None => {
            if !unknown.is_empty() {
                return Err(Fail::new(
                    Class::ExtraUnknown,
                    format!("after the crash the store holds frames nobody sent: {:?}", unknown),
                ));
            }
        }
    }
    // whatever the collector had queued (including for the in-flight append) may or may not have run
    it.model.reopen();
    let log_tail: String = std::fs::read_to_string(log)
        .map(|s| {
            let l: Vec<&str> = s.lines().filter(|l| !l.ends_with("unarmed")).collect();
            l[l.len().saturating_sub(8)..].join(" | ")
        })
        .unwrap_or_default();
    it.content_sweep = !case.crash.power;
    it.observe_all("after crash").map_err(|mut f| {
        f.msg = format!(
            "after crash at event {at} ({event_kind}, {}{}) [acked {acked} ops; last events: {log_tail}]: {}",
            if case.crash.before { "before" } else { "after" },
            if case.crash.power {
                format!(", power loss keeping {}/4 of the unsynced journal bytes", case.crash.torn_q)
            } else {
                ", process kill".to_string()
            },
            f.msg
        );
        f
    })?;
    // kill images: content of every visible frame whose content the workload wrote
    if !case.crash.power {
        let all = must("read_sync", it.ex().read_sync(None, None, None))?;
        for w in &all {
            if let Some(h) = &w.hash {
                let written = it
                    .known
                    .iter()
                    .any(|k| k.id == w.id128() && k.spec.hash.as_deref() == Some(h.as_str()) && it.model.frames.get(&k.id).map(|f| f.origin == Origin::Append).unwrap_or(false));
                if written {
                    match it.ex().cas_read(h, false) {
                        Ok(bytes) => {
                            if sha256_integrity(&bytes) != *h {
                                return Err(Fail::new(
                                    Class::Cas,
                                    format!("after the crash the content of frame {} does not hash to {h}", w.id),
                                ));
                            }
                        }
                        Err(e) => {
                            return Err(Fail::new(
                                Class::Cas,
                                format!("after a process kill frame {} is visible but its content {h} is not retrievable: {e}", w.id),
                            ))
                        }
                    }
                }
            }
        }
    }
    // the reopened store takes further writes
    let probe = FrameSpec {
        topic: "after-crash".into(),
        ctx: ZERO,
        id: None,
        hash: None,
        meta: None,
        ttl: None,
    };
    let w = it
        .do_append(probe, Some(b"still writable".to_vec()))?
        .ok_or_else(|| Fail::new(Class::Panic, "the reopened store refuses an append into the zero context".to_string()))?;
    let got = must("get", it.ex().get(w.id128()))?;
    if got.as_ref() != Some(&w) {
        return Err(Fail::new(
            Class::Missing,
            format!("a frame appended after the crash does not read back: {got:?}"),
        ));
    }
    Ok(CrashOutcome {
        acked,
        in_op: crashed_in.is_some(),
        event_kind,
    })
}

pub fn run_case(case: &C04Case) -> Result<CaseInfo, Fail> {
    let n = count_events(case)?;
    if n <= 0 {
        return Ok(CaseInfo {
            labels: vec!["workload-without-events".into()],
            ..Default::default()
        });
    }
    let at = 1 + ((case.crash.at as i64) * n >> 16);
    let out = run_crash(case, at)?;
    Ok(info_for(case, &out))
}

fn info_for(case: &C04Case, out: &CrashOutcome) -> CaseInfo {
    let kinds: Vec<&str> = case.ops.iter().map(|o| o.kind()).collect();
    let mode = if case.crash.power {
        format!("power{}", case.crash.torn_q.min(4))
    } else {
        "kill".to_string()
    };
    let mut labels = vec![
        format!("event-{}", out.event_kind),
        format!("mode-{mode}"),
        if case.crash.before { "kill-before-call".to_string() } else { "kill-after-call".to_string() },
    ];
    if out.in_op {
        labels.push("crash-inside-operation".into());
    } else {
        labels.push("crash-after-last-ack".into());
    }
    if case.layout == Layout::SmallMem {
        labels.push("layout-small-memtable".into());
    }
    if case.http {
        labels.push("through-http-api".into());
    }
    CaseInfo {
        nontrivial: out.acked >= 1 && out.in_op,
        shape: hash64(format!("{:?}|{kinds:?}|{}|{mode}", case.layout, out.event_kind).as_bytes()),
        labels,
        known: vec![],
        checks: 1,
    }
}

/// Thorough: every event of the workload, both phases of the chosen mode.
pub fn run_case_all_points(case: &C04Case, stats: &std::sync::Mutex<Stats>) -> Result<CaseInfo, Fail> {
    let n = count_events(case)?;
    let mut last = CaseInfo::default();
    // events shift a little between runs (background threads): go a few past the count
    for at in 1..=(n + 3) {
        for before in [true, false] {
            let mut c = case.clone();
            c.crash.before = before;
            let out = run_crash(&c, at).map_err(|mut f| {
                f.msg = format!("[event {at}/{n}] {}", f.msg);
                f
            })?;
            let info = info_for(&c, &out);
            stats.lock().unwrap().absorb(&info, || {
                let mut v = serde_json::to_value(&c).unwrap();
                v["crash"]["at_event"] = json!(at);
                v
            });
            last = info;
        }
    }
    last.nontrivial = false;
    last.labels = vec!["workload-enumerated".into()];
    Ok(last)
}

pub fn run(tier: Tier, seed: u64, replay: Option<&std::path::Path>) -> i32 {
    let started = Instant::now();
    if !shim_path().exists() {
        eprintln!("INFRASTRUCTURE: {} missing (run ./setup.sh)", shim_path().display());
        return 2;
    }
    let report_as = |_c: Class| "C04".to_string();
    if let Some(path) = replay {
        let case: C04Case = match load_replay(path) {
            Ok(c) => c,
            Err(e) => {
                eprintln!("cannot load replay: {e}");
                return 2;
            }
        };
        // crash points move a little between runs: try the neighbourhood, several times
        let mut res = Ok(());
        'outer: for _ in 0..5 {
            let n = match count_events(&case) {
                Ok(n) => n,
                Err(f) => {
                    res = Err(f);
                    break;
                }
            };
            let at0 = 1 + ((case.crash.at as i64) * n >> 16);
            for d in [0i64, -1, 1, -2, 2] {
                if at0 + d < 1 {
                    continue;
                }
                if let Err(f) = run_crash(&case, at0 + d) {
                    res = Err(f);
                    break 'outer;
                }
            }
        }
        return match res {
            Ok(_) => {
                println!("replay {} passes", path.display());
                0
            }
            Err(f) if f.msg.starts_with(INFRA) => {
                eprintln!("INFRASTRUCTURE: {}", f.msg);
                2
            }
            Err(f) => {
                println!("failure class={:?}: {}", f.class, f.msg);
                println!("VIOLATION property=C04 replay={}", path.display());
                1
            }
        };
    }
    for path in replay_files("C04") {
        if let Ok(case) = load_replay::<C04Case>(&path) {
            if let Err(f) = run_case(&case) {
                if f.msg.starts_with(INFRA) {
                    eprintln!("INFRASTRUCTURE: {}", f.msg);
                    return 2;
                }
                println!("failure class={:?}: {}", f.class, f.msg);
                println!("VIOLATION property=C04 replay={}", path.display());
                return 1;
            }
        }
    }
    let out = match tier {
        Tier::Quick => run_sharded("C04", seed, 640, 120, strategy, run_case),
        Tier::Thorough => {
            let extra = std::sync::Mutex::new(Stats::default());
            let mut out = run_sharded("C04-enum", seed, 160, 60, strategy, |c| run_case_all_points(c, &extra));
            let e = extra.into_inner().unwrap();
            out.stats.evaluations += e.evaluations;
            out.stats.nontrivial += e.nontrivial;
            out.stats.shapes.extend(e.shapes);
            for (k, v) in e.labels {
                *out.stats.labels.entry(k).or_insert(0) += v;
            }
            out.stats.samples.extend(e.samples);
            if out.failure.is_none() && out.infra.is_none() {
                let o2 = run_sharded("C04", seed, 4000, 120, strategy, run_case);
                out.stats.evaluations += o2.stats.evaluations;
                out.stats.nontrivial += o2.stats.nontrivial;
                out.stats.shapes.extend(o2.stats.shapes);
                for (k, v) in o2.stats.labels {
                    *out.stats.labels.entry(k).or_insert(0) += v;
                }
                out.failure = o2.failure;
                out.infra = o2.infra;
            }
            out
        }
    };
    let report = Report {
        prop: "C04",
        tier,
        seed,
        level: "fault_enumeration",
        rule: "workloads of 3..12 operations (appends with small and >8 KiB metas so that one batch spans several journal writes, with and without CAS content, head:K appends, registrations, imports incl. re-imports and id reuse, removes, drains, reads that trigger lazy expiry) on a fresh or small-memtable store (flushes, journal rotation and compaction fall inside the window); the executor is SIGKILLed at one file-system event of the workload (write/pwrite/fsync/fdatasync/rename/ftruncate/create/unlink/mkdir under the store directory, numbered by an LD_PRELOAD shim), before or after the call, as a process-kill image or as a power-loss image (journal bytes since the last fsync zeroed except a torn prefix of 0..4 quarters). quick: one sampled event per workload; thorough: additionally every event x {before, after} of 160 workloads. After the kill the store is reopened in a fresh process: Store::new returns; acknowledged operations fully reflected (reference model); the in-flight operation entirely present or absent; get <=> all-stream <=> context stream and head for every id and topic; nothing nobody sent; content of visible frames retrievable and hashing correctly (kill images); a further append works. Non-trivial = >= 1 operation acknowledged before the crash and the crash fell inside an operation. Distinct by (layout, op kinds, event kind and file area at the crash, mode).",
        assumptions: vec![
            "crash granularity is the interposed libc call; effects inside one kernel call, reordering of unsynced writes across files and directory-entry durability are not modelled".into(),
            "power loss is modelled for fjall journal files only (content durability under power loss is left to the CAS library, as the property says)".into(),
            "event numbers shift between runs because of background threads; the oracle depends only on acknowledgements".into(),
        ],
        extra: json!({"exhaustive": false}),
    };
    finish(&report, out, started, report_as)
}
