//! C06: contexts are isolated on every access path.
//!
//! For a generated pair of contexts (A, B) and a topic that is live in both,
//! probes are appended to A while every access path is scoped to B; a sentinel
//! appended to B afterwards closes each negative check (when the sentinel has
//! come out of a path, the probe had its chance).

use std::time::{Duration, Instant};

use proptest::prelude::*;
use proptest::strategy::BoxedStrategy;
use serde::{Deserialize, Serialize};
use serde_json::json;

use crate::client::*;
use crate::gen::*;
use crate::hist::{infra, must};
use crate::http::{is_chunked, Conn, Req};
use crate::httpx::{self, HOut};
use crate::model::*;
use crate::runner::*;
use crate::wire::*;

#[derive(Clone, Debug, Serialize, Deserialize)]
pub struct C06Case {
    /// which context plays A / B: 0 = zero context, 1.. = registered ones, 4 = adjacent (id+1) of ctx 1
    pub a: u8,
    pub b: u8,
    pub topic: String,
    /// frames of the topic stored in A and in B before the paths are opened
    pub pre_a: u8,
    pub pre_b: u8,
    /// probes appended to A afterwards: (ephemeral?, with content?)
    pub probes: Vec<(bool, bool)>,
    /// follow-read option variants for the scoped store followers
    pub tail: bool,
    pub heartbeat_ms: Option<u16>,
    pub last_id_from_a: bool,
    pub limit: Option<u8>,
}

pub fn strategy() -> BoxedStrategy<C06Case> {
    (
        (0u8..=4, 0u8..=4).prop_filter("distinct contexts", |(a, b)| a != b),
        prop_oneof![
            4 => proptest::sample::select(vec!["a", "ab", "", "a.b", "note", "x.out", "b"]).prop_map(|s| s.to_string()),
            1 => "[a-c.]{0,3}".prop_map(|s| s),
        ],
        0u8..3,
        0u8..3,
        proptest::collection::vec((any::<bool>(), any::<bool>()), 1..4),
        any::<bool>(),
        proptest::option::weighted(0.3, 5u16..40),
        any::<bool>(),
        proptest::option::weighted(0.3, 1u8..4),
    )
        .prop_map(
            |((a, b), topic, pre_a, pre_b, probes, tail, heartbeat_ms, last_id_from_a, limit)| C06Case {
                a,
                b,
                topic,
                pre_a,
                pre_b,
                probes,
                tail,
                heartbeat_ms,
                last_id_from_a,
                limit,
            },
        )
        .boxed()
}

fn iso(msg: String) -> Fail {
    Fail::new(Class::ScopeContext, msg)
}

struct HttpFollow {
    name: String,
    conn: Conn,
    chunked: bool,
    acc: Vec<u8>,
}

fn open_http_follow(sock: &std::path::Path, name: &str, target: &str, sse: bool) -> Result<HttpFollow, Fail> {
    let mut conn = Conn::open(sock).map_err(|e| infra(format!("connect: {e:?}")))?;
    let mut req = Req::new("GET", target);
    if sse {
        req = req.header("Accept", b"text/event-stream");
    }
    conn.send(&req.to_bytes()).ok();
    let (status, headers) = conn
        .read_head(Instant::now() + Duration::from_secs(20))
        .map_err(|e| Fail::new(Class::Http, format!("{name}: GET {target}: {e:?}")))?;
    if status != 200 {
        return Err(Fail::new(Class::Http, format!("{name}: GET {target} answered {status}")));
    }
    Ok(HttpFollow {
        name: name.to_string(),
        conn,
        chunked: is_chunked(&headers),
        acc: Vec::new(),
    })
}

fn frames_of_stream(hf: &HttpFollow, sse: bool) -> Vec<WFrame> {
    let text = String::from_utf8_lossy(&hf.acc).to_string();
    let mut out = Vec::new();
    if sse {
        for ev in text.split("\n\n") {
            for line in ev.split('\n') {
                if let Some(d) = line.strip_prefix("data: ") {
                    if let Ok(v) = parse_json_deep(d.as_bytes()) {
                        if let Ok(w) = wframe_from_json(&v) {
                            out.push(w);
                        }
                    }
                }
            }
        }
    } else {
        for line in text.split('\n') {
            if line.is_empty() {
                continue;
            }
            if let Ok(v) = parse_json_deep(line.as_bytes()) {
                if let Ok(w) = wframe_from_json(&v) {
                    out.push(w);
                }
            }
        }
    }
    out
}

pub fn run_case(case: &C06Case) -> Result<CaseInfo, Fail> {
    let dir = StoreDir::new();
    let mut exec = Exec::spawn(&dir.path, &ExecOpts::default()).map_err(|e| infra(format!("spawn: {e}")))?;
    let res = run_in(case, &mut exec);
    exec.kill_ref();
    res
}

fn spec(topic: &str, ctx: u128, ttl: Option<WTtl>) -> FrameSpec {
    FrameSpec {
        topic: topic.to_string(),
        ctx,
        id: None,
        hash: None,
        meta: None,
        ttl,
    }
}

fn run_in(case: &C06Case, exec: &mut Exec) -> Result<CaseInfo, Fail> {
    let sock = must("serve_api", exec.serve_api())?;
    // contexts: zero, three registered, one numerically adjacent to the first (imported registration)
    let mut ctxs: Vec<u128> = vec![ZERO];
    for _ in 0..3 {
        let f = must("register", exec.append(&spec("xs.context", ZERO, None), None))?;
        ctxs.push(f.id128());
    }
    let adj = ctxs[1] + 1;
    must(
        "import adjacent registration",
        exec.import(&FrameSpec {
            topic: "xs.context".into(),
            ctx: ZERO,
            id: Some(adj),
            hash: None,
            meta: None,
            ttl: Some(WTtl::Forever),
        }),
    )?;
    ctxs.push(adj);
    let a = ctxs[case.a as usize];
    let b = ctxs[case.b as usize];
    let t = case.topic.as_str();
    let url_safe = httpx::topic_is_url_safe(t);
    let mut checks = 0u64;

    let mut in_a: Vec<WFrame> = Vec::new();
    let mut in_b: Vec<WFrame> = Vec::new();
    for i in 0..case.pre_a.max(case.pre_b) {
        if i < case.pre_a {
            in_a.push(must("append A", exec.append(&spec(t, a, None), Some(b"in-a")))?);
        }
        if i < case.pre_b {
            in_b.push(must("append B", exec.append(&spec(t, b, None), Some(b"in-b")))?);
        }
    }

    // ---- open the scoped paths -------------------------------------------------
    let mut store_followers: Vec<(String, u32, ROpts)> = Vec::new();
    let base = ROpts {
        follow: Some(case.heartbeat_ms.map(|h| h as u64).unwrap_or(0)),
        tail: case.tail,
        last_id: if case.last_id_from_a {
            in_a.first().map(|w| w.id128())
        } else {
            None
        },
        limit: None,
        ctx: Some(b),
    };
    for (name, o) in [
        ("follow(B)".to_string(), base.clone()),
        (
            "follow(B, tail)".to_string(),
            ROpts {
                tail: true,
                last_id: None,
                ..base.clone()
            },
        ),
    ] {
        let h = must("follow_start", exec.follow_start(&o, false, false))?;
        store_followers.push((name, h, o));
    }
    let all_h = must(
        "follow_start",
        exec.follow_start(
            &ROpts {
                follow: Some(0),
                tail: true,
                ..Default::default()
            },
            false,
            false,
        ),
    )?;
    let mut http_followers: Vec<(HttpFollow, bool)> = Vec::new();
    {
        let q = httpx::read_query(&base);
        http_followers.push((open_http_follow(&sock, "GET /?follow&context-id=B", &format!("/{q}"), false)?, false));
        http_followers.push((open_http_follow(&sock, "GET /?follow&context-id=B (sse)", &format!("/{q}"), true)?, true));
        if url_safe {
            http_followers.push((
                open_http_follow(
                    &sock,
                    "GET /head/T?follow&context=B",
                    &format!("/head/{t}?follow=true&context={}", id_str(b)),
                    false,
                )?,
                false,
            ));
        }
    }

    // ---- probes into A, then the sentinel into B --------------------------------
    let mut probes: Vec<WFrame> = Vec::new();
    for (eph, content) in &case.probes {
        let w = must(
            "probe",
            exec.append(
                &spec(t, a, if *eph { Some(WTtl::Ephemeral) } else { None }),
                if *content { Some(b"probe-content") } else { None },
            ),
        )?;
        if !eph {
            in_a.push(w.clone());
        }
        probes.push(w);
    }
    let sentinel = must("sentinel", exec.append(&spec(t, b, None), Some(b"sentinel")))?;
    in_b.push(sentinel.clone());
    let probe_ids: Vec<String> = probes.iter().map(|w| w.id.clone()).collect();

    // ---- followers: wait for the sentinel, then inspect ---------------------------
    let deadline = Instant::now() + Duration::from_secs(15);
    for (name, h, _o) in &store_followers {
        loop {
            let (items, closed, _) = must("follow_poll", exec.follow_poll(*h))?;
            let got: Vec<&WFrame> = items.iter().map(|i| &i.frame).collect();
            let has_sentinel = got.iter().any(|w| w.id == sentinel.id);
            if has_sentinel || closed || Instant::now() > deadline {
                checks += 1;
                for w in &got {
                    if w.topic == "xs.threshold" || w.topic == "xs.pulse" {
                        continue;
                    }
                    if probe_ids.contains(&w.id) || w.ctx128() != b {
                        return Err(iso(format!(
                            "{name} scoped to context {} delivered frame {} ({:?}) of context {}",
                            id_str(b),
                            w.id,
                            w.topic,
                            w.ctx
                        )));
                    }
                }
                if !has_sentinel {
                    return Err(Fail::new(
                        Class::Follow,
                        format!("{name}: the frame appended to its own context was not delivered within 15 s"),
                    ));
                }
                break;
            }
            std::thread::sleep(Duration::from_millis(1));
        }
    }
    // the all-contexts follower sees both
    loop {
        let (items, closed, _) = must("follow_poll", exec.follow_poll(all_h))?;
        let ids: Vec<&String> = items.iter().map(|i| &i.frame.id).collect();
        if ids.contains(&&sentinel.id) || closed || Instant::now() > deadline {
            checks += 1;
            for p in &probe_ids {
                if !ids.contains(&p) {
                    return Err(Fail::new(
                        Class::Follow,
                        format!("the all-contexts follower did not receive frame {p} appended to context {}", id_str(a)),
                    ));
                }
            }
            break;
        }
        std::thread::sleep(Duration::from_millis(1));
    }
    for (hf, sse) in http_followers.iter_mut() {
        let sid = sentinel.id.clone();
        let chunked = hf.chunked;
        let mut acc = std::mem::take(&mut hf.acc);
        let ended = hf
            .conn
            .read_stream(
                chunked,
                Duration::from_secs(15),
                |bytes| String::from_utf8_lossy(bytes).contains(&sid),
                &mut acc,
            )
            .map_err(|e| Fail::new(Class::Http, format!("{}: {e:?}", hf.name)))?;
        hf.acc = acc;
        let got = frames_of_stream(hf, *sse);
        checks += 1;
        for w in &got {
            if w.topic == "xs.threshold" || w.topic == "xs.pulse" {
                continue;
            }
            if probe_ids.contains(&w.id) || w.ctx128() != b {
                return Err(iso(format!(
                    "{} scoped to context {} delivered frame {} ({:?}) of context {}",
                    hf.name,
                    id_str(b),
                    w.id,
                    w.topic,
                    w.ctx
                )));
            }
        }
        if !got.iter().any(|w| w.id == sentinel.id) {
            return Err(Fail::new(
                Class::Follow,
                format!("{}: the frame appended to its own context was not delivered within 15 s (stream ended: {ended})", hf.name),
            ));
        }
    }

    // ---- non-following paths ---------------------------------------------------------
    let want_b: Vec<String> = in_b.iter().map(|w| w.id.clone()).collect();
    let lim = case.limit.map(|l| l as usize);
    let check_scoped = |name: &str, got: &[WFrame], limit: Option<usize>| -> Check {
        for w in got {
            if w.ctx128() != b {
                return Err(iso(format!(
                    "{name} scoped to context {} returned frame {} ({:?}) of context {}",
                    id_str(b),
                    w.id,
                    w.topic,
                    w.ctx
                )));
            }
        }
        let ids: Vec<String> = got.iter().filter(|w| w.topic == t).map(|w| w.id.clone()).collect();
        let want: Vec<String> = match limit {
            Some(l) => want_b.iter().take(l).cloned().collect(),
            None => want_b.clone(),
        };
        // (context B may hold registration frames etc. when B is the zero context: compare the topic's frames)
        if b != ZERO && ids != want {
            return Err(Fail::new(
                Class::Missing,
                format!("{name}: frames of context {}: got {ids:?}, appended {want:?}", id_str(b)),
            ));
        }
        Ok(())
    };
    let r = must("read_sync", exec.read_sync(None, lim, Some(b)))?;
    check_scoped("read_sync(B)", &r, lim)?;
    let r = must(
        "read",
        exec.read(&ROpts {
            ctx: Some(b),
            limit: lim,
            ..Default::default()
        }),
    )?;
    check_scoped("read(B)", &r, lim)?;
    checks += 2;
    for sse in [false, true] {
        match httpx::read(
            &sock,
            &ROpts {
                ctx: Some(b),
                limit: lim,
                ..Default::default()
            },
            sse,
        ) {
            HOut::Ok(r) => check_scoped(if sse { "GET /?context-id=B (sse)" } else { "GET /?context-id=B" }, &r, lim)?,
            HOut::Infra(e) => return Err(infra(format!("connect: {e}"))),
            other => return Err(Fail::new(Class::Http, format!("GET /?context-id=B: {other:?}"))),
        }
        checks += 1;
    }
    // last-id taken from the other context must not leak frames of that context
    if let Some(first_a) = in_a.first() {
        let r = must("read_sync", exec.read_sync(Some(first_a.id128()), None, Some(b)))?;
        for w in &r {
            if w.ctx128() != b {
                return Err(iso(format!(
                    "read_sync(B, last_id from A) returned frame {} of context {}",
                    w.id, w.ctx
                )));
            }
        }
        checks += 1;
    }
    // head
    let hb = must("head", exec.head(t, b))?;
    checks += 1;
    match (&hb, in_b.last()) {
        (Some(w), Some(want)) if w.id == want.id && w.ctx128() == b => {}
        (got, want) => {
            return Err(iso(format!(
                "head({t:?}, B={}) = {:?}, the newest frame of that topic in B is {:?} (A={} holds {:?})",
                id_str(b),
                got.as_ref().map(|w| (&w.id, &w.ctx)),
                want.map(|w| &w.id),
                id_str(a),
                in_a.last().map(|w| &w.id)
            )))
        }
    }
    if url_safe {
        match httpx::head(&sock, t, b, true) {
            HOut::Ok(Some(w)) if w.id == sentinel.id && w.ctx128() == b => {}
            HOut::Infra(e) => return Err(infra(format!("connect: {e}"))),
            other => {
                return Err(iso(format!(
                    "GET /head/{t}?context=B answered {other:?}, expected the sentinel {}",
                    sentinel.id
                )))
            }
        }
        checks += 1;
    }
    // a frame imported again under its id into the other context has left its old context:
    // nothing scoped to A may still show it, whichever path is asked
    {
        let mv = must("append mover", exec.append(&spec("moved.topic", a, None), Some(b"moving")))?;
        must(
            "import mover into B",
            exec.import(&FrameSpec {
                topic: "moved.topic".into(),
                ctx: b,
                id: Some(mv.id128()),
                hash: mv.hash.clone(),
                meta: None,
                ttl: None,
            }),
        )?;
        checks += 1;
        if let Some(w) = must("head", exec.head("moved.topic", a))? {
            return Err(iso(format!(
                "frame {} was imported into context {} under its id; head(\"moved.topic\", A={}) still returns frame {} of context {}",
                mv.id,
                id_str(b),
                id_str(a),
                w.id,
                w.ctx
            )));
        }
        if must("read_sync", exec.read_sync(None, None, Some(a)))?.iter().any(|w| w.id == mv.id) {
            return Err(iso(format!("frame {} was imported into context {} under its id and is still in the stream of context {}", mv.id, id_str(b), id_str(a))));
        }
        match must("head", exec.head("moved.topic", b))? {
            Some(w) if w.id == mv.id && w.ctx128() == b => {}
            other => return Err(iso(format!("head(\"moved.topic\", B) after the import is {:?}, expected frame {} in B", other.map(|w| (w.id, w.ctx)), mv.id))),
        }
        if url_safe {
            match httpx::head(&sock, "moved.topic", a, true) {
                HOut::Ok(None) => {}
                HOut::Infra(e) => return Err(infra(format!("connect: {e}"))),
                other => return Err(iso(format!("GET /head/moved.topic?context=A after the frame moved to B answered {other:?}"))),
            }
        }
    }
    // only the all-contexts read sees both
    let all = must("read_sync", exec.read_sync(None, None, None))?;
    let ids: Vec<&String> = all.iter().map(|w| &w.id).collect();
    for w in in_a.iter().chain(in_b.iter()) {
        if !ids.contains(&&w.id) {
            return Err(Fail::new(
                Class::Missing,
                format!("the all-contexts read lacks frame {} of context {}", w.id, w.ctx),
            ));
        }
    }
    checks += 1;

    // ---- scripts running for B: `.cat` / `.head` without --context ------------------------------
    let only_a = must("only-a", exec.append(&spec("only-in-a", a, None), Some(b"x")))?;
    // a frame of B that is gone again: a cursor on it must still mean "everything after it"
    let gone = must("gone", exec.append(&spec("gone.b", b, None), None))?;
    must("remove gone", exec.remove(gone.id128()))?;
    must("serve_nu", exec.serve_nu(true, false, true))?;
    let report = format!(
        r#"let own = (.head {t})
      let foreign = (.head "only-in-a")
      let named = (.head "only-in-a" --context "{actx}")
      {{
        cat: (.cat | each {{|f| $f.id}}),
        cat2: (.cat --limit 2 | each {{|f| $f.id}}),
        cat_gone: (.cat --last-id "{gone}" | each {{|f| $f.id}}),
        cat_after: (.cat --last-id "{last}" | each {{|f| $f.id}}),
        head: (if $own == null {{ "none" }} else {{ $own.id }}),
        foreign: (if $foreign == null {{ "none" }} else {{ $foreign.id }}),
        named: (if $named == null {{ "none" }} else {{ $named.id }}),
        got: (.get "{sid}")
      }}"#,
        sid = sentinel.id,
        gone = gone.id,
        t = crate::nu::nu_str(t),
        actx = id_str(a),
        last = in_a.first().map(|w| w.id.clone()).unwrap_or(id_str(1)),
    );
    // the handler also appends explicitly, once naming the OTHER context: its output lands in
    // its own context whatever the script asks for
    let hscript = format!(
        "{{run: {{|frame|\n      if $frame.topic != \"look\" {{ return }}\n      \"x\" | .append \"spy.leak\" --context \"{}\"\n      \"y\" | .append \"spy.plain\"\n      {report}\n    }}}}",
        id_str(a)
    );
    let cscript = format!("{{run: {{|frame|\n      {report}\n    }}}}");
    let hreg = must("register spy", exec.append(&spec("spy.register", b, None), Some(hscript.as_bytes())))?;
    // the byte-identical script is first defined in A as well: a definition (or anything
    // prepared from its content) must not be shared between contexts
    must("define spy command in A", exec.append(&spec("spyc.define", a, None), Some(cscript.as_bytes())))?;
    must("define spy command", exec.append(&spec("spyc.define", b, None), Some(cscript.as_bytes())))?;
    // wait until the handler is up, then make both look
    let deadline = Instant::now() + Duration::from_secs(20);
    loop {
        let fr = must("read_sync", exec.read_sync(None, None, Some(b)))?;
        if fr.iter().any(|w| w.topic == "spy.registered" && w.meta_str("handler_id").as_deref() == Some(&hreg.id)) {
            break;
        }
        if let Some(u) = fr.iter().find(|w| w.topic == "spy.unregistered") {
            return Err(Fail::new(Class::Field, format!("the spy handler was refused: {:?}\n{hscript}", u.meta)));
        }
        if Instant::now() > deadline {
            return Err(Fail::new(Class::Follow, "the spy handler did not register within 20 s".to_string()));
        }
        std::thread::sleep(Duration::from_millis(2));
    }
    let look = must("look", exec.append(&spec("look", b, None), None))?;
    let mut reports: Vec<(String, serde_json::Value)> = Vec::new();
    let mut call_ids: Vec<String> = Vec::new();
    let deadline = Instant::now() + Duration::from_secs(20);
    loop {
        let fr = must("read_sync", exec.read_sync(None, None, Some(b)))?;
        // the commands loop ignores calls it finds in its history: call until one is answered
        if !fr.iter().any(|w| w.topic == "spyc.recv" || w.topic == "spyc.error") {
            if call_ids.len() < 400 {
                call_ids.push(must("call", exec.append(&spec("spyc.call", b, None), None))?.id);
            }
        }
        reports.clear();
        for w in &fr {
            let is_h = w.topic == "spy.out" && w.meta_str("frame_id").as_deref() == Some(&look.id);
            let is_c = w.topic == "spyc.recv";
            if is_h || is_c {
                let c = exec
                    .cas_read(w.hash.as_ref().unwrap(), false)
                    .map_err(|e| Fail::new(Class::Cas, format!("report content: {e}")))?;
                let v: serde_json::Value =
                    serde_json::from_slice(&c).map_err(|e| Fail::new(Class::Field, format!("report is not JSON: {e}")))?;
                let mut v = v;
                // (the frame that triggered this report: the script ran after it existed)
                v["_trigger"] = serde_json::Value::String(w.meta_str("frame_id").unwrap_or_default());
                reports.push((if is_h { "handler".to_string() } else { "command".to_string() }, v));
            }
        }
        if let Some(e) = fr.iter().find(|w| w.topic == "spy.unregistered" || w.topic == "spyc.error") {
            return Err(Fail::new(Class::Field, format!("the spy script failed: {:?}\n{hscript}", e.meta)));
        }
        let have_h = reports.iter().any(|r| r.0 == "handler");
        let have_c = reports.iter().any(|r| r.0 == "command");
        if have_h && have_c {
            break;
        }
        if Instant::now() > deadline {
            return Err(Fail::new(Class::Follow, format!("the spy handler/command did not report within 20 s (handler: {have_h}, command: {have_c})")));
        }
        std::thread::sleep(Duration::from_millis(3));
    }
    let b_stream = must("read_sync", exec.read_sync(None, None, Some(b)))?;
    let b_ids: std::collections::BTreeSet<String> = b_stream.iter().map(|w| w.id.clone()).collect();
    for (who, v) in &reports {
        checks += 1;
        for key in ["cat", "cat_after"] {
            for id in v[key].as_array().cloned().unwrap_or_default() {
                let id = id.as_str().unwrap_or("").to_string();
                if !b_ids.contains(&id) {
                    return Err(iso(format!(
                        "`.{key}` inside a {who} script running for context {} returned frame {id}, which is not a frame of that context",
                        id_str(b),
                    )));
                }
            }
        }
        if v["head"].as_str() != Some(&sentinel.id) {
            return Err(iso(format!(
                "`.head {t:?}` inside a {who} script running for context {} returned {}, the newest frame of that topic in that context is {}",
                id_str(b),
                v["head"],
                sentinel.id
            )));
        }
        if v["foreign"].as_str() != Some("none") {
            return Err(iso(format!(
                "`.head only-in-a` inside a {who} script running for context {} returned {} — that topic only exists in context {}",
                id_str(b),
                v["foreign"],
                id_str(a)
            )));
        }
        // `.cat --last-id <a frame that is gone>`: exactly the frames after it - what the script
        // saw is a prefix of what the context holds after that id now, up to its own trigger at least
        let after_gone: Vec<String> = b_stream.iter().filter(|w| w.id128() > gone.id128()).map(|w| w.id.clone()).collect();
        let saw: Vec<String> = v["cat_gone"].as_array().cloned().unwrap_or_default().iter().map(|x| x.as_str().unwrap_or("").to_string()).collect();
        let trigger = v["_trigger"].as_str().unwrap_or("").to_string();
        if saw.len() > after_gone.len() || saw[..] != after_gone[..saw.len()] || !saw.contains(&trigger) {
            return Err(iso(format!(
                "`.cat --last-id {}` (a removed frame of context {}) inside a {who} script returned {} frames {:?}; the context holds {:?} after that id (the script's trigger is {trigger})",
                gone.id,
                id_str(b),
                saw.len(),
                saw.iter().take(6).collect::<Vec<_>>(),
                after_gone.iter().take(6).collect::<Vec<_>>()
            )));
        }
        // `.cat --limit 2` is exactly the first two frames of the script's context
        let first2: Vec<serde_json::Value> = b_stream.iter().take(2).map(|w| serde_json::Value::String(w.id.clone())).collect();
        if v["cat2"].as_array().cloned().unwrap_or_default() != first2 {
            return Err(iso(format!(
                "`.cat --limit 2` inside a {who} script running for context {} returned {}, that context's stream begins {:?}",
                id_str(b),
                v["cat2"],
                first2
            )));
        }
        // by-id lookup from a script returns the frame as accepted
        let g = &v["got"];
        if g["id"].as_str() != Some(&sentinel.id)
            || g["topic"].as_str() != Some(&sentinel.topic)
            || g["context_id"].as_str() != Some(&sentinel.ctx)
            || g["hash"].as_str().map(|s| s.to_string()) != sentinel.hash
            || g.get("meta").cloned().filter(|m| !m.is_null()) != sentinel.meta_json()
        {
            return Err(Fail::new(
                Class::Field,
                format!("`.get {}` inside a {who} script returned {g}, the stored frame is {:?}", sentinel.id, sentinel),
            ));
        }
        if v["named"].as_str() != Some(&only_a.id) {
            return Err(iso(format!(
                "`.head only-in-a --context A` inside a {who} script returned {}, expected {} (a script may name another context explicitly)",
                v["named"], only_a.id
            )));
        }
    }

    // everything the handler produced (stamped with its id) lives in its own context B
    let everything = must("read_sync", exec.read_sync(None, None, None))?;
    let produced: Vec<&WFrame> = everything
        .iter()
        .filter(|w| w.meta_str("handler_id").as_deref() == Some(&hreg.id) && w.meta_str("frame_id").as_deref() == Some(&look.id))
        .collect();
    checks += 1;
    for want in ["spy.leak", "spy.plain", "spy.out"] {
        match produced.iter().find(|w| w.topic == want) {
            None => {
                return Err(iso(format!(
                    "the handler registered in context {} produced {:?} for its trigger; its `{want}` frame is missing",
                    id_str(b),
                    produced.iter().map(|w| (&w.topic, &w.ctx)).collect::<Vec<_>>()
                )))
            }
            Some(w) if w.ctx128() != b => {
                return Err(iso(format!(
                    "frame {} ({want}) produced by a handler registered in context {} landed in context {} (the script's `.append --context` named {})",
                    w.id,
                    id_str(b),
                    w.ctx,
                    id_str(a)
                )))
            }
            _ => {}
        }
    }

    let mut labels = vec![];
    for (on, name) in [
        (case.a == 0 || case.b == 0, "zero-context-involved"),
        (case.a == 4 || case.b == 4, "adjacent-context-id"),
        ((case.a == 1 && case.b == 4) || (case.a == 4 && case.b == 1), "pair-of-adjacent-ids"),
        (case.heartbeat_ms.is_some(), "heartbeat"),
        (case.tail, "tail"),
        (case.last_id_from_a, "last-id-from-other-context"),
        (case.probes.iter().any(|p| p.0), "ephemeral-probe"),
        (url_safe, "http-head-paths"),
    ] {
        if on {
            labels.push(name.to_string());
        }
    }
    Ok(CaseInfo {
        // the probe's topic is also live in the scoped context, so a filter on the topic alone would pass
        nontrivial: case.pre_b > 0,
        shape: hash64(
            format!(
                "{}{}{:?}{}{}{:?}{}{:?}{}{:?}",
                case.a, case.b, case.topic, case.pre_a, case.pre_b, case.probes, case.tail, case.heartbeat_ms.is_some(), case.last_id_from_a, case.limit
            )
            .as_bytes(),
        ),
        labels,
        known: vec![],
        checks,
    })
}

pub fn run(tier: Tier, seed: u64, replay: Option<&std::path::Path>) -> i32 {
    let started = Instant::now();
    let report_as = |c: Class| super::report_as("C06", c);
    if let Some(path) = replay {
        let case: C06Case = match load_replay(path) {
            Ok(c) => c,
            Err(e) => {
                eprintln!("cannot load replay: {e}");
                return 2;
            }
        };
        return match run_case(&case) {
            Ok(_) => {
                println!("replay {} passes", path.display());
                0
            }
            Err(f) if f.msg.starts_with(INFRA) => {
                eprintln!("INFRASTRUCTURE: {}", f.msg);
                2
            }
            Err(f) => {
                println!("failure class={:?}: {}", f.class, f.msg);
                println!("VIOLATION property={} replay={}", report_as(f.class), path.display());
                1
            }
        };
    }
    for path in replay_files("C06") {
        if let Ok(case) = load_replay::<C06Case>(&path) {
            if let Err(f) = run_case(&case) {
                if f.msg.starts_with(INFRA) {
                    eprintln!("INFRASTRUCTURE: {}", f.msg);
                    return 2;
                }
                println!("failure class={:?}: {}", f.class, f.msg);
                println!("VIOLATION property={} replay={}", report_as(f.class), path.display());
                return 1;
            }
        }
    }
    let cases = match tier {
        Tier::Quick => 3000,
        Tier::Thorough => 60_000,
    };
    let out = run_sharded("C06", seed, cases, 200, strategy, run_case);
    let report = Report {
        prop: "C06",
        tier,
        seed,
        level: "exploration",
        rule: "pairs (A, B) of distinct contexts from {zero, three registered, the numeric neighbour of a registered id}; a topic stored in both; scoped paths opened on B: Store::read follow (from start / last-id taken from A / tail, with and without heartbeat), GET /?follow&context-id=B as NDJSON and SSE, GET /head/T?follow&context=B; then probes (stored and ephemeral) appended to A and a sentinel to B; every path must deliver the sentinel and nothing of A; then read_sync / read / GET / (NDJSON+SSE) with context-id=B and limit, read_sync with a last-id from A, head and GET /head for B, and the all-contexts read. Non-trivial = the probe's topic is also stored in the scoped context. Distinct by parameter hash.",
        assumptions: vec![
            "negative checks are closed by a sentinel appended to the scoped context after the probes".into(),
            "nu-level paths (handler dispatch and output, .cat/.head in scripts, generator input) are exercised by the nu checks".into(),
        ],
        extra: json!({}),
    };
    finish(&report, out, started, report_as)
}
