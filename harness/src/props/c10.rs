//! C10: content store is byte-exact, content-addressed, and content is present
//! before its frame is observable.

use std::collections::BTreeMap;
use std::time::{Duration, Instant};

use proptest::prelude::*;
use proptest::strategy::BoxedStrategy;
use serde::{Deserialize, Serialize};
use serde_json::json;

use crate::client::*;
use crate::gen::*;
use crate::hist::{infra, must};
use crate::httpx::{self, HOut};
use crate::model::*;
use crate::runner::*;
use crate::wire::*;

#[derive(Clone, Copy, Debug, PartialEq, Eq, Serialize, Deserialize)]
pub enum Entry {
    CasInsert,
    CasInsertSync,
    CasWriter,
    CasWriterSync,
    HttpCas { chunk: Option<u16> },
    HttpAppend { chunk: Option<u16> },
    /// POST /{topic} with Content-Length, the body written in two parts with a pause
    HttpAppendSplit { at_pct: u8 },
    /// Store::append with content placed by cas_insert_sync first (what nu's .append does)
    ApiAppend,
}

#[derive(Clone, Copy, Debug, PartialEq, Eq, Serialize, Deserialize)]
pub enum ReadVia {
    CasRead,
    CasReadSync,
    HttpCas,
}

#[derive(Clone, Debug, Serialize, Deserialize)]
pub struct Item {
    pub content: Content,
    pub entry: Entry,
    pub read: ReadVia,
}

#[derive(Clone, Debug, Serialize, Deserialize)]
pub struct C10Case {
    pub items: Vec<Item>,
    /// kill + reopen after this many items
    pub reopen_after: Option<u8>,
    /// widen the window between broadcast and return of append (ms)
    pub hold_after_broadcast_ms: u8,
}

fn entry() -> BoxedStrategy<Entry> {
    let chunk = || proptest::option::weighted(0.5, prop_oneof![Just(1u16), Just(7), Just(1024), Just(8192), Just(9000)]);
    prop_oneof![
        2 => Just(Entry::CasInsert),
        2 => Just(Entry::CasInsertSync),
        2 => Just(Entry::CasWriter),
        1 => Just(Entry::CasWriterSync),
        3 => chunk().prop_map(|chunk| Entry::HttpCas { chunk }),
        5 => chunk().prop_map(|chunk| Entry::HttpAppend { chunk }),
        3 => (1u8..100).prop_map(|at_pct| Entry::HttpAppendSplit { at_pct }),
        2 => Just(Entry::ApiAppend),
    ]
    .boxed()
}

pub fn strategy() -> BoxedStrategy<C10Case> {
    (
        proptest::collection::vec(
            (
                content_any(),
                entry(),
                prop_oneof![Just(ReadVia::CasRead), Just(ReadVia::CasReadSync), Just(ReadVia::HttpCas)],
            )
                .prop_map(|(content, entry, read)| Item { content, entry, read }),
            1..8,
        ),
        proptest::option::weighted(0.5, 0u8..8),
        prop_oneof![3 => Just(0u8), 2 => Just(3u8), 1 => Just(15u8)],
    )
        .prop_map(|(items, reopen_after, hold_after_broadcast_ms)| C10Case {
            items,
            reopen_after,
            hold_after_broadcast_ms,
        })
        .boxed()
}

fn cas(msg: String) -> Fail {
    Fail::new(Class::Cas, msg)
}

struct Ctx {
    _dir: StoreDir,
    path: std::path::PathBuf,
    exec: Exec,
    sock: std::path::PathBuf,
    follower: u32,
    hold: u8,
}

fn boot(path: &std::path::Path, hold: u8) -> Result<(Exec, std::path::PathBuf, u32), Fail> {
    let mut exec = Exec::spawn(path, &ExecOpts::default()).map_err(|e| infra(format!("spawn: {e}")))?;
    if hold > 0 {
        must(
            "schedule",
            exec.call(&crate::exec::Cmd::SetDelays {
                delays: vec![("append.after_broadcast".to_string(), hold as u64 * 1000)],
            })
            .map(|_| ()),
        )?;
    }
    let sock = must("serve_api", exec.serve_api())?;
    let follower = must(
        "follow_start",
        exec.follow_start(
            &ROpts {
                follow: Some(0),
                tail: true,
                ..Default::default()
            },
            true,
            false,
        ),
    )?;
    Ok((exec, sock, follower))
}

fn read_back(c: &mut Ctx, via: ReadVia, hash: &str) -> Result<Vec<u8>, Fail> {
    match via {
        ReadVia::CasRead => c
            .exec
            .cas_read(hash, false)
            .map_err(|e| cas(format!("cas_read({hash}) failed: {e}"))),
        ReadVia::CasReadSync => c
            .exec
            .cas_read(hash, true)
            .map_err(|e| cas(format!("cas_read_sync({hash}) failed: {e}"))),
        ReadVia::HttpCas => match httpx::cas_get(&c.sock, hash) {
            HOut::Ok(Some(b)) => Ok(b),
            HOut::Ok(None) => Err(cas(format!("GET /cas/{hash} answered 404 for content that was written"))),
            HOut::Infra(e) => Err(infra(format!("connect: {e}"))),
            other => Err(Fail::new(Class::Http, format!("GET /cas/{hash}: {other:?}"))),
        },
    }
}

pub fn run_case(case: &C10Case) -> Result<CaseInfo, Fail> {
    let dir = StoreDir::new();
    let path = dir.path.clone();
    let (exec, sock, follower) = boot(&path, case.hold_after_broadcast_ms)?;
    let mut c = Ctx {
        _dir: dir,
        path,
        exec,
        sock,
        follower,
        hold: case.hold_after_broadcast_ms,
    };
    let mut written: BTreeMap<String, Vec<u8>> = BTreeMap::new();
    let mut frames_with_hash: Vec<(String, String)> = Vec::new(); // (frame id, hash)
    let mut checks = 0u64;
    let mut nontrivial = false;
    let mut labels: Vec<String> = Vec::new();
    let mut expected_frames = 0usize;
    for (i, item) in case.items.iter().enumerate() {
        if case.reopen_after == Some(i as u8) {
            check_follower(&mut c, expected_frames)?;
            c.exec.kill_ref();
            let (exec, sock, follower) = boot(&c.path, c.hold)?;
            c.exec = exec;
            c.sock = sock;
            c.follower = follower;
            expected_frames = 0;
            labels.push("reopen".into());
            // everything written before the restart reads back identically
            for (h, b) in written.clone() {
                for via in [ReadVia::CasRead, ReadVia::HttpCas] {
                    let got = read_back(&mut c, via, &h)?;
                    checks += 1;
                    if got != b {
                        return Err(cas(format!(
                            "after restart content {h} reads back as {} bytes, {} were written",
                            got.len(),
                            b.len()
                        )));
                    }
                }
            }
        }
        let bytes = item.content.bytes();
        let want_hash = sha256_integrity(&bytes);
        let what = format!("item #{i} ({} bytes via {:?})", bytes.len(), item.entry);
        let got_hash: Option<String> = match item.entry {
            Entry::CasInsert | Entry::CasInsertSync | Entry::CasWriter | Entry::CasWriterSync => {
                let mode = match item.entry {
                    Entry::CasInsert => "async",
                    Entry::CasInsertSync => "sync",
                    Entry::CasWriter => "writer",
                    _ => "writer_sync",
                };
                match c.exec.cas_insert(&bytes, mode) {
                    // the CAS library refuses to place empty content on some of its
                    // write paths: no hash is reported, so nothing is claimed
                    Err(ExecErr::Err(_)) if bytes.is_empty() => {
                        labels.push("empty-content-refused".into());
                        None
                    }
                    r => Some(must(&what, r)?),
                }
            }
            Entry::HttpCas { chunk } => match httpx::cas_post(&c.sock, &bytes, chunk.map(|n| n as usize)) {
                HOut::Ok(h) => {
                    if bytes.is_empty() {
                        return Err(cas(format!("{what}: POST /cas with an empty body answered 200 ({h}), documented: 400")));
                    }
                    Some(h)
                }
                HOut::Status(400, _) if bytes.is_empty() => None,
                HOut::Infra(e) => return Err(infra(format!("connect: {e}"))),
                other => return Err(Fail::new(Class::Http, format!("{what}: POST /cas answered {other:?}"))),
            },
            Entry::HttpAppend { .. } | Entry::HttpAppendSplit { .. } => {
                let (chunk, split_at) = match item.entry {
                    Entry::HttpAppend { chunk } => (chunk, None),
                    Entry::HttpAppendSplit { at_pct } => (None, Some((bytes.len() * at_pct as usize / 100).max(1))),
                    _ => unreachable!(),
                };
                let spec = FrameSpec {
                    topic: format!("c{i}"),
                    ctx: ZERO,
                    id: None,
                    hash: None,
                    meta: None,
                    ttl: None,
                };
                let how = httpx::AppendHow {
                    chunked: chunk.map(|n| n as usize),
                    explicit_zero_ctx: false,
                    ctx_first: false,
                    split_at,
                };
                match httpx::append(&c.sock, &spec, Some(&bytes), &how) {
                    HOut::Ok(f) => {
                        expected_frames += 1;
                        if bytes.is_empty() {
                            if f.hash.is_some() {
                                return Err(cas(format!("{what}: an append without a body produced a frame with hash {:?}", f.hash)));
                            }
                            None
                        } else {
                            match f.hash {
                                Some(h) => {
                                    frames_with_hash.push((f.id.clone(), h.clone()));
                                    Some(h)
                                }
                                None => return Err(cas(format!("{what}: the frame carries no hash"))),
                            }
                        }
                    }
                    HOut::Infra(e) => return Err(infra(format!("connect: {e}"))),
                    other => return Err(Fail::new(Class::Http, format!("{what}: POST /c{i} answered {other:?}"))),
                }
            }
            Entry::ApiAppend => {
                let spec = FrameSpec {
                    topic: format!("c{i}"),
                    ctx: ZERO,
                    id: None,
                    hash: None,
                    meta: None,
                    ttl: None,
                };
                let f = match c.exec.append(&spec, Some(&bytes)) {
                    Err(ExecErr::Err(_)) if bytes.is_empty() => {
                        labels.push("empty-content-refused".into());
                        continue;
                    }
                    r => must(&what, r)?,
                };
                expected_frames += 1;
                match f.hash {
                    Some(h) => {
                        frames_with_hash.push((f.id.clone(), h.clone()));
                        Some(h)
                    }
                    None => return Err(cas(format!("{what}: the frame carries no hash"))),
                }
            }
        };
        checks += 1;
        if let Some(h) = got_hash {
            if h != want_hash {
                return Err(cas(format!(
                    "{what}: reported hash {h} but the SHA-256 of the bytes is {want_hash}"
                )));
            }
            let back = read_back(&mut c, item.read, &h)?;
            checks += 1;
            if back != bytes {
                let at = back.iter().zip(bytes.iter()).position(|(a, b)| a != b);
                return Err(cas(format!(
                    "{what}: read back through {:?} gives {} bytes (first difference at {:?}), {} were written",
                    item.read,
                    back.len(),
                    at,
                    bytes.len()
                )));
            }
            if std::str::from_utf8(&bytes).is_err() || bytes.len() > 8192 {
                nontrivial = true;
            }
            written.insert(h, bytes);
        }
    }
    check_follower(&mut c, expected_frames)?;
    // every frame with a hash: content retrievable through the store, byte-exact
    let all = must("read_sync", c.exec.read_sync(None, None, None))?;
    for w in &all {
        if let Some(h) = &w.hash {
            let got = c
                .exec
                .cas_read(h, false)
                .map_err(|e| cas(format!("frame {} is readable but its content {h} is not: {e}", w.id)))?;
            checks += 1;
            if let Some(b) = written.get(h) {
                if got != *b {
                    return Err(cas(format!("content {h} of frame {} differs from what was written", w.id)));
                }
            }
        }
    }
    c.exec.kill_ref();
    let kinds: Vec<String> = case
        .items
        .iter()
        .map(|i| format!("{:?}/{:?}/{}", i.entry, i.read, i.content.len()))
        .collect();
    if c.hold > 0 {
        labels.push("append-held-after-broadcast".into());
    }
    Ok(CaseInfo {
        nontrivial,
        shape: hash64(format!("{kinds:?}{:?}", case.reopen_after).as_bytes()),
        labels,
        known: vec![],
        checks,
    })
}

/// The probing follower must have received `expected` frames and found the
/// content of every hashed one at the moment it arrived.
fn check_follower(c: &mut Ctx, expected: usize) -> Check {
    let deadline = Instant::now() + Duration::from_secs(10);
    loop {
        let (items, closed, _) = must("follow_poll", c.exec.follow_poll(c.follower))?;
        for it in &items {
            if it.cas_ok == Some(false) {
                return Err(cas(format!(
                    "a follower received frame {} ({:?}) but its content {:?} was not retrievable at that moment",
                    it.frame.id, it.frame.topic, it.frame.hash
                )));
            }
        }
        let real = items.iter().filter(|i| i.frame.topic != "xs.start").count();
        if real >= expected || closed || Instant::now() > deadline {
            if real < expected {
                return Err(Fail::new(
                    Class::Follow,
                    format!("follower received {real} of {expected} appended frames within 10 s"),
                ));
            }
            return Ok(());
        }
        std::thread::sleep(Duration::from_millis(1));
    }
}

/// What `check C10` runs: its own store/HTTP cases, plus command and handler programs from
/// the C19 / C15 generators for the nu entry points (`.append`, `.cas`, return values) - of
/// their verdicts only the content clauses (class Cas) are C10's business.
#[derive(Clone, Debug, Serialize, Deserialize)]
pub enum C10Any {
    Store(C10Case),
    NuCommand(super::c19::C19Case),
    NuHandler(super::c15::C15Case),
    NuGenerator(super::c18::C18Case),
}

pub fn strategy_any() -> BoxedStrategy<C10Any> {
    prop_oneof![
        5 => strategy().prop_map(C10Any::Store),
        2 => super::c19::strategy().prop_map(C10Any::NuCommand),
        2 => super::c15::strategy().prop_map(C10Any::NuHandler),
        1 => super::c18::strategy().prop_map(C10Any::NuGenerator),
    ]
    .boxed()
}

pub fn run_case_any(case: &C10Any) -> Result<CaseInfo, Fail> {
    let nu_only_cas = |r: Result<CaseInfo, Fail>, label: &str| match r {
        Ok(mut info) => {
            info.labels = vec![label.to_string()];
            info.nontrivial = true;
            Ok(info)
        }
        Err(f) if f.class == Class::Cas || f.msg.starts_with(INFRA) => Err(f),
        // anything else the nu checks find is reported by the check of its own property
        Err(_) => Ok(CaseInfo {
            nontrivial: false,
            shape: 0,
            labels: vec![format!("{label}-other-property-failed")],
            known: vec![],
            checks: 0,
        }),
    };
    match case {
        C10Any::Store(c) => run_case(c),
        C10Any::NuCommand(c) => nu_only_cas(super::c19::run_case(c), "nu-command-content"),
        C10Any::NuHandler(c) => nu_only_cas(super::c15::run_case(c), "nu-handler-content"),
        C10Any::NuGenerator(c) => nu_only_cas(super::c18::run_case(c), "nu-generator-content"),
    }
}

pub fn run(tier: Tier, seed: u64, replay: Option<&std::path::Path>) -> i32 {
    let started = Instant::now();
    let report_as = |c: Class| super::report_as("C10", c);
    if let Some(path) = replay {
        let case: C10Any = match load_replay(path) {
            Ok(c) => c,
            Err(e) => {
                eprintln!("cannot load replay: {e}");
                return 2;
            }
        };
        return match run_case_any(&case) {
            Ok(_) => {
                println!("replay {} passes", path.display());
                0
            }
            Err(f) if f.msg.starts_with(INFRA) => {
                eprintln!("INFRASTRUCTURE: {}", f.msg);
                2
            }
            Err(f) => {
                println!("failure class={:?}: {}", f.class, f.msg);
                println!("VIOLATION property={} replay={}", report_as(f.class), path.display());
                1
            }
        };
    }
    for path in replay_files("C10") {
        if let Ok(case) = load_replay::<C10Any>(&path) {
            if let Err(f) = run_case_any(&case) {
                if f.msg.starts_with(INFRA) {
                    eprintln!("INFRASTRUCTURE: {}", f.msg);
                    return 2;
                }
                println!("failure class={:?}: {}", f.class, f.msg);
                println!("VIOLATION property={} replay={}", report_as(f.class), path.display());
                return 1;
            }
        }
    }
    let cases = match tier {
        Tier::Quick => 900,
        Tier::Thorough => 30_000,
    };
    let out = run_sharded("C10", seed, cases, 200, strategy_any, run_case_any);
    let report = Report {
        prop: "C10",
        tier,
        seed,
        level: "exploration",
        rule: "half of the cases: 1..7 byte strings per case (empty, 1 byte, random, ASCII, invalid UTF-8, 8191/8192/8193, 16 KiB, 64 KiB+1, 300 KiB) each written through a generated entry point (cas_insert, cas_insert_sync, cas_writer, cas_writer_sync, POST /cas and POST /{topic} with Content-Length or chunked bodies of several chunk sizes or a Content-Length body written in two parts with a pause, Store::append after cas_insert_sync) and read back through another path (cas_read, cas_read_sync, GET /cas/{hash}), optional kill+reopen in between; a follower opened before the writes reads the content of every frame the instant it is delivered (appender optionally held after its broadcast via the verif sync point). Oracle: reported hash == SHA-256 computed by the harness, read-back bytes identical, empty HTTP body => frame without hash, POST /cas empty => 400. Non-trivial = content that is not valid UTF-8 or longer than 8 KiB. Distinct by (entry, read path, size) sequence hash. Half of the cases are command (C19 generator), handler (C15 generator) and generator (C18 generator) programs for the nu entry points: content piped into `.append` (text, binary, records), returned values, the trigger's own content read back through `.cas` and re-appended, explicit appends the store refuses; of those runs only the content clauses count here (every observable hash retrievable, hashing to itself, byte-equal to what the script produced).",
        assumptions: vec![
            
            "content durability under crash is the C04 check".into(),
        ],
        extra: json!({}),
    };
    finish(&report, out, started, report_as)
}
