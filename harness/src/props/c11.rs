//! C11: limit is exact, tail skips history, synthetic frames stay private, and a
//! follower that cannot keep up has its stream ended — never a silent gap.

use std::collections::BTreeSet;
use std::time::{Duration, Instant};

use proptest::prelude::*;
use proptest::strategy::BoxedStrategy;
use serde::{Deserialize, Serialize};
use serde_json::json;

use crate::client::*;
use crate::director::*;
use crate::hist::{infra, must};
use crate::model::*;
use crate::props::c02::in_scope;
use crate::props::c03::{build_rules, prepare, SRule, READ_LABELS};
use crate::props::c02::DELAYS_US;
use crate::runner::*;
use crate::wire::*;

#[derive(Clone, Debug, Serialize, Deserialize)]
pub struct Lag {
    /// stop consuming after this many frames ...
    pub stall_after: u8,
    /// ... while this many frames are appended (past the 100 + 1024 buffers)
    pub burst: u16,
    pub during_replay: bool,
}

#[derive(Clone, Debug, Serialize, Deserialize)]
pub struct C11Case {
    /// history size relative to the limit: limit + delta (clamped at 0)
    pub limit: Option<u8>,
    pub history_delta: i8,
    /// None = not following, Some(0) = follow, Some(ms) = follow with heartbeat
    pub follow: Option<u8>,
    pub tail: bool,
    pub last_id: Option<u16>,
    pub ctx: Option<u8>,
    /// frames appended after the read (ctx, ephemeral)
    pub live: Vec<(u8, bool)>,
    /// how long after the scenario starts the live writer begins (us): small values put the
    /// appends into the reader's history -> live hand-off
    #[serde(default)]
    pub live_delay_us: u16,
    pub lag: Option<Lag>,
    pub rules: Vec<SRule>,
}

pub fn strategy() -> BoxedStrategy<C11Case> {
    let normal = (
        proptest::option::weighted(0.75, 1u8..=6),
        -3i8..=3,
        prop_oneof![2 => Just(None), 4 => Just(Some(0u8)), 3 => (5u8..50).prop_map(Some)],
        prop_oneof![3 => Just(false), 1 => Just(true)],
        proptest::option::weighted(0.25, any::<u16>()),
        proptest::option::weighted(0.4, 0u8..3),
        proptest::collection::vec((0u8..3, prop_oneof![4 => Just(false), 1 => Just(true)]), 0..8),
        proptest::collection::vec(
            (0..READ_LABELS.len() as u8, 0u8..3, proptest::option::weighted(0.6, 0u8..5), 0..DELAYS_US.len() as u8)
                .prop_map(|(point, writer, occurrence, delay)| SRule { point, writer, occurrence, delay }),
            0..=2,
        ),
        prop_oneof![2 => Just(25_000u16), 3 => 200u16..3000, 1 => 3000u16..25_000],
    )
        .prop_map(|(limit, history_delta, follow, tail, last_id, ctx, live, rules, live_delay_us)| C11Case {
            limit,
            history_delta,
            follow,
            tail,
            last_id,
            ctx,
            live,
            live_delay_us,
            lag: None,
            rules,
        });
    let lag = (
        prop_oneof![2 => Just(Some(0u8)), 2 => (5u8..40).prop_map(Some)],
        1u8..40,
        1200u16..2000,
        any::<bool>(),
        proptest::option::weighted(0.3, 0u8..3),
    )
        .prop_map(|(follow, stall_after, burst, during_replay, ctx)| C11Case {
            limit: None,
            history_delta: if during_replay { 120 } else { 2 },
            follow,
            tail: false,
            last_id: None,
            ctx,
            live: vec![],
            live_delay_us: 25_000,
            lag: Some(Lag {
                stall_after,
                burst,
                during_replay,
            }),
            rules: vec![],
        });
    // the n frames arrive inside the hand-off: the reader is held right after subscribing (or its
    // replay at the first delivery) while a writer appends, so the same frames are both in the
    // subscription queue and in the replay's range
    let handoff = (
        2u8..=6,
        -4i8..=-1,
        prop_oneof![2 => Just(Some(0u8)), 1 => (5u8..50).prop_map(Some)],
        proptest::option::weighted(0.3, 0u8..3),
        // (stored frames only: an ephemeral frame appended during the hand-off is the recorded C03 finding)
        proptest::collection::vec((0u8..3, Just(false)), 3..8),
        prop_oneof![Just(0u8), Just(1u8)],
        prop_oneof![Just(2u8), Just(3u8)],
        300u16..2500,
    )
        .prop_map(|(limit, history_delta, follow, ctx, live, point, delay, live_delay_us)| C11Case {
            limit: Some(limit),
            history_delta,
            follow,
            tail: false,
            last_id: None,
            ctx,
            live,
            live_delay_us,
            lag: None,
            rules: vec![SRule {
                point,
                writer: 0,
                occurrence: Some(0),
                delay,
            }],
        });
    prop_oneof![10 => normal, 3 => handoff, 1 => lag].boxed()
}

fn spec(topic: &str, ctx: u128, ttl: Option<WTtl>) -> FrameSpec {
    FrameSpec {
        topic: topic.to_string(),
        ctx,
        id: None,
        hash: None,
        meta: None,
        ttl,
    }
}

pub fn run_case(case: &C11Case) -> Result<CaseInfo, Fail> {
    let dir = StoreDir::new();
    let mut exec = Exec::spawn(&dir.path, &ExecOpts::default()).map_err(|e| infra(format!("spawn: {e}")))?;
    let r = run_in(case, &mut exec);
    exec.kill_ref();
    r
}

fn lim(msg: String) -> Fail {
    Fail::new(Class::Limit, msg)
}

fn run_in(case: &C11Case, exec: &mut Exec) -> Result<CaseInfo, Fail> {
    // history: sized relative to the limit *in the reader's scope*
    let n = case.limit.map(|l| l as i32).unwrap_or(3);
    let want_matching = (n + case.history_delta as i32).max(0) as usize;
    let scoped = case.ctx.is_some();
    // the pre-history is round-robin over three contexts: a scoped reader sees a third of it
    let pre_total = if case.lag.as_ref().map(|l| l.during_replay).unwrap_or(false) {
        130
    } else if scoped {
        want_matching * 3
    } else {
        want_matching.saturating_sub(2) // two registration frames come on top
    };
    // (non-following, limited reads: every k-th pre-existing frame has expired and is still on
    // disk when the first read meets it)
    let expired_every = if case.lag.is_none() && case.follow.is_none() && case.limit.is_some() {
        2 + (case.history_delta.rem_euclid(3) as u8)
    } else {
        0
    };
    let p = super::c03::prepare_with(exec, pre_total as u16, 0, expired_every)?;
    let scope = case.ctx.map(|c| p.ctxs[c as usize % 3]);
    let last_id = case
        .last_id
        .and_then(|k| crate::gen::pick(k, p.pre.len()).map(|i| p.pre[i].id128()));
    let opts = ROpts {
        follow: case.follow.map(|f| f as u64),
        tail: case.tail,
        last_id,
        limit: case.limit.map(|l| l as usize),
        ctx: scope,
    };
    let following = opts.follow.is_some();
    let history: Vec<&WFrame> = if case.tail {
        vec![]
    } else {
        p.pre
            .iter()
            .filter(|w| in_scope(w, scope) && last_id.map(|l| w.id128() > l).unwrap_or(true))
            .collect()
    };

    // the synchronous read path first (it is the first read to meet the expired frames):
    // exactly the first n live frames of the history
    let mut sync_checked = false;
    if expired_every > 0 && !case.tail {
        let got = must("read_sync", exec.read_sync(last_id, opts.limit, scope))?;
        let want: Vec<&String> = history.iter().take(opts.limit.unwrap_or(usize::MAX)).map(|w| &w.id).collect();
        let got_ids: Vec<&String> = got.iter().map(|w| &w.id).collect();
        if got_ids != want {
            return Err(lim(format!(
                "read_sync({opts:?}) over a history with expired, uncollected frames returned {got_ids:?}; the first {:?} live frames are {want:?}",
                opts.limit
            )));
        }
        sync_checked = true;
    }

    // writers: start well after the read is in place
    let mut writers = vec![];
    if let Some(l) = &case.lag {
        writers.push(WriterSpec {
            remove_lag: None,
            start_delay_us: 30_000,
            frames: (0..l.burst)
                .map(|i| (spec("burst", p.ctxs[i as usize % 3], None), 0))
                .collect(),
        });
    } else if !case.live.is_empty() {
        writers.push(WriterSpec {
            remove_lag: None,
            start_delay_us: if case.live_delay_us == 0 { 25_000 } else { case.live_delay_us as u64 },
            frames: case
                .live
                .iter()
                .map(|(c, eph)| {
                    (
                        spec("live", p.ctxs[*c as usize % 3], if *eph { Some(WTtl::Ephemeral) } else { None }),
                        300,
                    )
                })
                .collect(),
        });
    }
    let mut followers = vec![FollowSpec {
        opts: opts.clone(),
        stall_after: case.lag.as_ref().map(|l| l.stall_after as u32),
        stall_ms: case.lag.as_ref().map(|l| 30 + l.burst as u32 / 4 + 400).unwrap_or(0),
        ..Default::default()
    }];
    // the second observer: a plain tail follower over all contexts
    followers.push(FollowSpec {
        opts: ROpts {
            follow: Some(0),
            tail: true,
            ..Default::default()
        },
        ..Default::default()
    });
    let sspec = ScenarioSpec {
        rules: build_rules(&case.rules, writers.len()),
        writers,
        followers,
        pollers: vec![],
        expect_min: vec![],
        settle_ms: if case.lag.is_some() { 700 } else { 40 + case.follow.unwrap_or(0) as u32 * 4 },
        max_wait_ms: 0,
        log_events: true,
    };
    let mut res = must("scenario", exec.scenario(&sspec))?;

    // ---- expectation ---------------------------------------------------------------
    let f = res.followers[0].clone();
    let t_sub = res
        .events
        .iter()
        .find(|e| e.label == "read.after_subscribe" && e.actor == "f0")
        .map(|e| e.t_us)
        .unwrap_or(f.subscribed_at_us);
    let mut live_frames: Vec<WFrame> = Vec::new();
    let mut timing_ok = true;
    for w in &res.writers {
        for (t1, _, r) in &w.appends {
            match r {
                Ok(fr) => {
                    if *t1 <= t_sub {
                        timing_ok = false;
                    }
                    live_frames.push(fr.clone());
                }
                Err(e) => return Err(Fail::new(Class::ContextRule, format!("append failed: {e}"))),
            }
        }
    }
    live_frames.sort_by_key(|w| w.id128());
    if !timing_ok {
        return Ok(CaseInfo {
            labels: vec!["inconclusive-timing".into()],
            ..Default::default()
        });
    }
    let mut expected: Vec<WFrame> = history.iter().map(|w| (*w).clone()).collect();
    if following {
        expected.extend(live_frames.iter().filter(|w| in_scope(w, scope)).cloned());
    }
    let full_len = expected.len();
    if let Some(l) = opts.limit {
        expected.truncate(l);
    }
    let mut must_end = !following || opts.limit.map(|l| full_len >= l).unwrap_or(false);

    // ---- wait for the end of the stream where one is due (bounded response) ----------
    let mut f = f;
    if must_end && !f.closed {
        let deadline = Instant::now() + Duration::from_secs(10);
        while Instant::now() < deadline {
            std::thread::sleep(Duration::from_millis(5));
            let again: Vec<FollowResult> = must(
                "peek",
                exec.call(&crate::exec::Cmd::ScenarioPeek)
                    .map(|v| serde_json::from_value(v).unwrap_or_default()),
            )?;
            if let Some(f0) = again.into_iter().next() {
                f = f0;
            }
            if f.closed {
                break;
            }
        }
        res.followers[0] = f.clone();
    }

    // deliveries may still be on their way (e.g. the schedule delays the live task): while what
    // has arrived is a strict prefix of the expectation, wait (bounded) before judging
    if case.lag.is_none() {
        let deadline = Instant::now() + Duration::from_secs(10);
        loop {
            let got: Vec<&String> = f
                .items
                .iter()
                .map(|i| &i.frame)
                .filter(|w| w.topic != "xs.threshold" && w.topic != "xs.pulse")
                .map(|w| &w.id)
                .collect();
            let is_strict_prefix = got.len() < expected.len() && got.iter().zip(expected.iter()).all(|(a, b)| **a == b.id);
            if !is_strict_prefix || f.closed || Instant::now() > deadline {
                break;
            }
            std::thread::sleep(Duration::from_millis(5));
            let again: Vec<FollowResult> = must(
                "peek",
                exec.call(&crate::exec::Cmd::ScenarioPeek)
                    .map(|v| serde_json::from_value(v).unwrap_or_default()),
            )?;
            if let Some(f0) = again.into_iter().next() {
                f = f0;
            }
        }
        res.followers[0] = f.clone();
    }
    let real: Vec<&WFrame> = f
        .items
        .iter()
        .map(|i| &i.frame)
        .filter(|w| w.topic != "xs.threshold" && w.topic != "xs.pulse")
        .collect();
    if std::env::var_os("XSV_TRACE").is_some() {
        eprintln!("-- opts {opts:?}\n-- history {:?}\n-- live {:?}\n-- delivered {:?} closed={} at {:?}", history.iter().map(|w| &w.id).collect::<Vec<_>>(), live_frames.iter().map(|w| (&w.id, &w.ctx)).collect::<Vec<_>>(), f.items.iter().map(|i| (&i.frame.id, &i.frame.topic, i.t_us)).collect::<Vec<_>>(), f.closed, f.closed_at_us);
        for e in res.events.iter().filter(|e| e.label.starts_with("read.")) {
            eprintln!("-- ev {} {} {} {:?}", e.t_us, e.actor, e.label, e.id);
        }
    }
    let thresholds = f.items.iter().filter(|i| i.frame.topic == "xs.threshold").count();
    let pulses = f.items.iter().filter(|i| i.frame.topic == "xs.pulse").count();
    let mut known_hits = vec![];
    let mut labels = vec![];

    if let Some(l) = &case.lag {
        // lag: a gap-free prefix, and if frames are missing the stream must have ended
        for (i, w) in real.iter().enumerate() {
            match expected.get(i) {
                Some(e) if e.id == w.id => {}
                other => {
                    return Err(Fail::new(
                        Class::Follow,
                        format!(
                            "slow follower: delivery #{i} is frame {} but the next frame of its stream is {:?} — a gap inside an open stream",
                            w.id,
                            other.map(|e| &e.id)
                        ),
                    ))
                }
            }
        }
        let behind = expected.len().saturating_sub(real.len());
        if behind > 0 {
            labels.push("follower-lagged-out".to_string());
            if !f.closed {
                // it must end: watch for three further pulses (or 2 s) with frames still missing
                let deadline = Instant::now() + Duration::from_secs(8);
                let pulses0 = pulses;
                let mut ended = false;
                let mut extra_pulses = 0;
                while Instant::now() < deadline {
                    std::thread::sleep(Duration::from_millis(20));
                    let again: Vec<FollowResult> = must(
                        "peek",
                        exec.call(&crate::exec::Cmd::ScenarioPeek)
                            .map(|v| serde_json::from_value(v).unwrap_or_default()),
                    )?;
                    if let Some(f0) = again.into_iter().next() {
                        if f0.closed {
                            ended = true;
                            break;
                        }
                        extra_pulses = f0.items.iter().filter(|i| i.frame.topic == "xs.pulse").count() - pulses0;
                        let real_now = f0.items.iter().filter(|i| i.frame.topic != "xs.pulse" && i.frame.topic != "xs.threshold").count();
                        if real_now >= expected.len() {
                            ended = true; // it caught up after all: nothing was lost
                            break;
                        }
                        if extra_pulses >= 3 && case.follow.unwrap_or(0) > 0 {
                            break;
                        }
                    }
                }
                if !ended {
                    let sig = "heartbeat-keeps-lagged-stream-open";
                    if case.follow.unwrap_or(0) > 0 && known().lists(sig) {
                        known_hits.push(sig.to_string());
                    } else {
                        return Err(Fail::new(
                            Class::Follow,
                            format!(
                                "slow follower is {behind} frames behind (its stream lost frames) but the stream neither ended nor caught up within 8 s ({extra_pulses} further pulses)",
                            ),
                        ));
                    }
                }
            }
        }
        let _ = l;
    } else {
        // exactness
        let got_ids: Vec<&String> = real.iter().map(|w| &w.id).collect();
        let mut want_ids: Vec<&String> = expected.iter().map(|w| &w.id).collect();
        if !following {
            // a non-following scan that is still running when a frame is appended may or may
            // not include it: admit any prefix of the live frames after the history
            let live_in_scope: Vec<&String> = live_frames
                .iter()
                .filter(|w| in_scope(w, scope) && w.ttl != Some(WTtl::Ephemeral))
                .map(|w| &w.id)
                .collect();
            let extra = got_ids.len().saturating_sub(want_ids.len());
            want_ids.extend(live_in_scope.iter().take(extra).cloned());
            if let Some(l) = opts.limit {
                want_ids.truncate(l);
            }
        }
        if got_ids != want_ids && following && known().lists("ephemeral-lost-during-replay") {
            // the recorded C03 finding: an ephemeral frame appended while the replay is still
            // running is dropped when a later frame is delivered by the replay
            let max_got = real.iter().map(|w| w.id128()).max();
            let mut alt: Vec<&WFrame> = history.clone();
            alt.extend(live_frames.iter().filter(|w| in_scope(w, scope)));
            let lost: Vec<&String> = alt
                .iter()
                .filter(|w| w.ttl == Some(WTtl::Ephemeral) && max_got.map(|m| w.id128() < m).unwrap_or(false) && !got_ids.contains(&&w.id))
                .map(|w| &w.id)
                .collect();
            if !lost.is_empty() {
                let mut alt_ids: Vec<&String> = alt.iter().map(|w| &w.id).filter(|i| !lost.contains(i)).collect();
                if let Some(l) = opts.limit {
                    alt_ids.truncate(l);
                }
                if alt_ids == got_ids {
                    known_hits.push("ephemeral-lost-during-replay".to_string());
                    want_ids = alt_ids;
                    // with those frames lost the limit may not have been reached yet
                    must_end = !following || opts.limit.map(|l| full_len - lost.len() >= l).unwrap_or(false);
                }
            }
        }
        if got_ids != want_ids {
            return Err(lim(format!(
                "read {opts:?} over {} matching historical and {} live frames delivered {:?}, expected exactly {:?}",
                history.len(),
                live_frames.iter().filter(|w| in_scope(w, scope)).count(),
                got_ids,
                want_ids
            )));
        }
        if must_end && !f.closed {
            let sig = "heartbeat-keeps-limited-stream-open";
            if case.follow.unwrap_or(0) > 0 && opts.limit.is_some() && known().lists(sig) {
                known_hits.push(sig.to_string());
            } else {
                return Err(lim(format!(
                    "read {opts:?} delivered its {} frames but the stream did not end within 3 s ({pulses} pulses so far)",
                    real.len()
                )));
            }
        }
        if !must_end && f.closed {
            return Err(Fail::new(Class::Follow, format!("read {opts:?}: the stream ended although it follows and its limit is not reached")));
        }
        // threshold: exactly one when following from history without a limit
        let want_thr = if following && !opts.tail && opts.limit.is_none() { 1 } else { 0 };
        if thresholds != want_thr {
            return Err(lim(format!("read {opts:?}: {thresholds} xs.threshold markers, expected {want_thr}")));
        }
        if case.follow.unwrap_or(0) == 0 && pulses > 0 {
            return Err(lim(format!("read {opts:?}: {pulses} xs.pulse frames without a heartbeat option")));
        }
        if opts.tail {
            let pre_ids: BTreeSet<&String> = p.pre.iter().map(|w| &w.id).collect();
            if let Some(w) = real.iter().find(|w| pre_ids.contains(&w.id)) {
                return Err(lim(format!("tail read delivered historical frame {}", w.id)));
            }
        }
    }
    // synthetic frames go nowhere else and are never stored
    for it in &res.followers[1].items {
        if it.frame.topic == "xs.threshold" || it.frame.topic == "xs.pulse" {
            return Err(lim(format!("another subscriber received synthetic frame {:?}", it.frame)));
        }
    }
    for w in &res.final_all {
        if w.topic == "xs.threshold" || w.topic == "xs.pulse" {
            return Err(lim(format!("synthetic frame {:?} was stored", w)));
        }
    }
    let split = opts.limit.map(|l| following && history.len() < l && full_len >= l && !history.is_empty()).unwrap_or(false);
    let h_eq_n = opts.limit.map(|l| history.len() == l).unwrap_or(false);
    for (on, name) in [
        (h_eq_n, "history-equals-limit"),
        (split, "limit-split-history-live"),
        (case.lag.is_some(), "slow-consumer"),
        (case.follow.unwrap_or(0) > 0, "heartbeat"),
        (!following, "not-following"),
        (opts.tail, "tail"),
        (opts.last_id.is_some(), "last-id"),
        (scoped, "context-scoped"),
        (must_end, "stream-must-end"),
        (sync_checked, "read_sync-first-over-expired-frames"),
    ] {
        if on {
            labels.push(name.to_string());
        }
    }
    // the same options once more as a following GET / on the now quiescent store (limit against
    // heartbeats and live frames over HTTP, NDJSON or SSE)
    let mut http_checks = 0;
    if case.lag.is_none() && following && opts.limit.is_some() {
        let sse = case.live.len() % 2 == 1;
        http_checks = super::httpfollow::check(exec, &opts, sse, scope.unwrap_or(ZERO))?;
        labels.push(format!("http-follow-limit-{}", if sse { "sse" } else { "ndjson" }));
    }
    let _ = http_checks;
    Ok(CaseInfo {
        nontrivial: h_eq_n || split || labels.iter().any(|l| l == "follower-lagged-out"),
        shape: hash64(
            format!(
                "{:?}{}{:?}{}{:?}{:?}{}{:?}{:?}",
                case.limit,
                case.history_delta,
                case.follow.map(|f| f.min(1)),
                case.tail,
                case.last_id.is_some(),
                case.ctx,
                case.live.len(),
                case.lag.as_ref().map(|l| (l.during_replay, l.stall_after)),
                case.rules.iter().map(|r| (r.point, r.delay)).collect::<Vec<_>>()
            )
            .as_bytes(),
        ),
        labels,
        known: known_hits,
        checks: 1,
    })
}

pub fn run(tier: Tier, seed: u64, replay: Option<&std::path::Path>) -> i32 {
    let started = Instant::now();
    let report_as = |_c: Class| "C11".to_string();
    let test_rep = |case: &C11Case| -> Result<CaseInfo, Fail> {
        let mut last = run_case(case)?;
        for _ in 0..2 {
            last = run_case(case)?;
        }
        Ok(last)
    };
    if let Some(path) = replay {
        let case: C11Case = match load_replay(path) {
            Ok(c) => c,
            Err(e) => {
                eprintln!("cannot load replay: {e}");
                return 2;
            }
        };
        return match test_rep(&case) {
            Ok(_) => {
                println!("replay {} passes", path.display());
                0
            }
            Err(f) if f.msg.starts_with(INFRA) => {
                eprintln!("INFRASTRUCTURE: {}", f.msg);
                2
            }
            Err(f) => {
                println!("failure class={:?}: {}", f.class, f.msg);
                println!("VIOLATION property=C11 replay={}", path.display());
                1
            }
        };
    }
    for path in replay_files("C11") {
        if let Ok(case) = load_replay::<C11Case>(&path) {
            if let Err(f) = test_rep(&case) {
                if f.msg.starts_with(INFRA) {
                    eprintln!("INFRASTRUCTURE: {}", f.msg);
                    return 2;
                }
                println!("failure class={:?}: {}", f.class, f.msg);
                println!("VIOLATION property=C11 replay={}", path.display());
                return 1;
            }
        }
    }
    let cases = match tier {
        Tier::Quick => 400,
        Tier::Thorough => 8_000,
    };
    let out = run_sharded("C11", seed, cases, 30, strategy, run_case);
    let report = Report {
        prop: "C11",
        tier,
        seed,
        level: "exploration",
        rule: "one reader per scenario: limit n in 1..6 or none, history sized n-3..n+3 frames in the reader's scope, follow off / on / with heartbeat 5..49 ms, tail, last-id on an existing frame, optional context scope, 0..7 stored and ephemeral frames appended 0.2..25 ms after the read was called (inside or after its history -> live hand-off), 0..2 schedule delays at the read/append sync points; one case in thirteen is a slow consumer that stops receiving after 1..39 frames while 1200..2000 frames are appended (past the 100-slot delivery channel and the 1024-slot broadcast buffer), during replay of a 130-frame history or afterwards. A second plain follower and the final read observe that synthetic frames go nowhere else. Oracle: the real frames delivered are exactly the first n of (matching history ++ matching live appends) and then the stream ends (closed within 3 s, 1000x normal latency); no threshold with a limit or without follow, exactly one otherwise (none for tail); no pulse without heartbeat; tail delivers nothing historical; slow consumer: delivered frames are a gap-free prefix and, if frames are missing, the stream ends (three further pulses with frames still missing = violation). Non-trivial = history == limit, or the n frames split between history and live, or the consumer lagged out. Distinct by parameter hash.",
        assumptions: vec![
            "cases in which a live append began before the reader's subscription was observably in place are counted as inconclusive-timing and not judged".into(),
            "stream end is a bounded-response clause: 3 s against microsecond-scale normal latency".into(),
        ],
        extra: json!({}),
    };
    finish(&report, out, started, report_as)
}
