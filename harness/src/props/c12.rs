//! C12: wire formats round-trip; nothing accepted can poison later reads.
//!
//! Part 1 (in-process, pure): TTL spellings, near-grammar strings, ReadOptions
//! client-encoding -> server-parser trip, malformed option strings, Frame JSON.
//! Part 2 (end to end): histories of appends (Store API and xs-meta header path)
//! and imports (POST /import) with the full meta domain, then get / reads /
//! reopen, through the shared history engine.

use std::time::{Duration, Instant};

use proptest::prelude::*;
use proptest::strategy::BoxedStrategy;
use scru128::Scru128Id;
use serde::{Deserialize, Serialize};
use serde_json::json;

use xs::store::{parse_ttl, FollowOption, Frame, ReadOptions, TTL};

use crate::gen::*;
use crate::hist::{hist_strategy, profile, run_history, Access, HistCase};
use crate::model::{Class, Fail};
use crate::runner::*;
use crate::wire::*;

#[derive(Clone, Debug, Serialize, Deserialize)]
pub enum Pure {
    Ttl(WTtl),
    TtlString(String),
    Opts(ROpts),
    /// the same options with a heartbeat interval of exactly 0 ms (`follow=0` on the wire),
    /// a value the harness's ROpts cannot spell
    OptsHeartbeatZero(ROpts),
    BadOpts(String),
    /// a query string written by hand in one of the spellings the server's parser accepts (bare
    /// flags, yes/no, 1/0, extra parameters): (follow spelling, tail spelling, limit, extra)
    OptsSpelled(u8, u8, Option<u32>, bool),
    FrameJson {
        spec: FrameSpec,
        hash_kind: u8,
        /// drop the optional fields that are null from the JSON text
        sparse: bool,
    },
}

fn ttl_value() -> BoxedStrategy<WTtl> {
    prop_oneof![
        1 => Just(WTtl::Forever),
        1 => Just(WTtl::Ephemeral),
        6 => prop_oneof![
            3 => 0u64..100_000,
            3 => any::<u64>(),
            2 => proptest::sample::select(vec![0u64, 1, 999, 1000, 1001, 59_999, 60_000, 3_600_000, (1 << 32) - 1, 1 << 32,
                (1 << 32) + 1, (1u64 << 53) + 1, u64::MAX / 1000, u64::MAX / 1000 + 1, u64::MAX - 1, u64::MAX]),
        ].prop_map(WTtl::Time),
        6 => prop_oneof![
            3 => 1u32..100,
            3 => 1u32..=u32::MAX,
            1 => proptest::sample::select(vec![1u32, 2, 3, 255, 256, 65_535, 65_536, u32::MAX - 1, u32::MAX]),
        ].prop_map(WTtl::Head),
    ]
    .boxed()
}

fn ttl_string() -> BoxedStrategy<String> {
    let prefix = proptest::sample::select(vec![
        "time:", "head:", "Time:", "HEAD:", "time", "head", "forever", "ephemeral", "Forever", "EPHEMERAL", "",
        "time: ", " time:", "ttl=", "time::", "head:head:", "forever:", "ephemeral:1", "tim:", "heads:",
    ]);
    let num = prop_oneof![
        4 => proptest::sample::select(vec![
            "0", "1", "5", "-1", "-0", "4294967295", "4294967296", "18446744073709551615", "18446744073709551616",
            "99999999999999999999999999", "1.5", "1.0", "1x", "x", "", " 5", "5 ", "\u{663}", "1e3", "0x10", "007",
            "1_000", "１", "5\n", "\t5", "00", "2147483648", "9223372036854775808",
        ]).prop_map(|s| s.to_string()),
        2 => any::<u64>().prop_map(|n| n.to_string()),
        1 => any::<i64>().prop_map(|n| n.to_string()),
        1 => "[0-9]{1,24}",
    ];
    let suffix = proptest::sample::select(vec!["", "", "", "", " ", "x", ":", ":1", "\0"]);
    (prefix, num, suffix)
        .prop_map(|(p, n, s)| format!("{p}{n}{s}"))
        .boxed()
}

fn id_any() -> BoxedStrategy<u128> {
    prop_oneof![
        3 => any::<u128>(),
        2 => (any::<u64>(), any::<u32>()).prop_map(|(t, c)| Scru128Id::from_fields(t & ((1 << 48) - 1), c & 0xff_ffff, c & 0xff_ffff, c).to_u128()),
        1 => proptest::sample::select(vec![0u128, 1, u128::MAX, u128::MAX - 1, 1 << 64, (1 << 64) - 1]),
    ]
    .boxed()
}

fn ropts() -> BoxedStrategy<ROpts> {
    (
        prop_oneof![
            3 => Just(None),
            3 => Just(Some(0u64)),
            6 => prop_oneof![
                3 => 1u64..100_000,
                2 => any::<u64>().prop_map(|n| n.max(1)),
                2 => proptest::sample::select(vec![1u64, 5, 999, 1000, 1001, 1500, 60_000, (1 << 32) + 7, u64::MAX]),
            ].prop_map(Some),
        ],
        any::<bool>(),
        proptest::option::weighted(0.5, id_any()),
        proptest::option::weighted(
            0.5,
            prop_oneof![3 => 0usize..100, 2 => any::<usize>(), 1 => Just(usize::MAX)],
        ),
        proptest::option::weighted(0.5, id_any()),
    )
        .prop_map(|(follow, tail, last_id, limit, ctx)| ROpts {
            follow,
            tail,
            last_id,
            limit,
            ctx,
        })
        .boxed()
}

/// Option strings with exactly one malformed value (the rest valid).
fn bad_opts() -> BoxedStrategy<String> {
    let bad = prop_oneof![
        proptest::sample::select(vec![
            "limit=abc", "limit=-1", "limit=1.5", "limit=", "limit=99999999999999999999999", "limit=1e3",
            "limit=0x10", "limit=%20", "limit=18446744073709551616",
            "last-id=xyz", "last-id=", "last-id=zzzzzzzzzzzzzzzzzzzzzzzzz", "last-id=03d4sq5pnxqgzj0xgqm4bwh0",
            "last-id=03d4sq5pnxqgzj0xgqm4bwh0y0", "last-id=f5lxx1zz5pnorynqglhzmsp34",
            "context-id=xyz", "context-id=", "context-id=zzzzzzzzzzzzzzzzzzzzzzzzz", "context-id=-1",
            "follow=maybe", "follow=-5", "follow=1.5", "follow=on", "follow=18446744073709551616", "follow=TRUE",
        ]).prop_map(|s| s.to_string()),
    ];
    let good = proptest::collection::vec(
        proptest::sample::select(vec![
            "tail=true", "limit=3", "follow=true", "follow=500", "last-id=03d4sq5pnxqgzj0xgqm4bwh0y",
            "context-id=0000000000000000000000000", "unknown=1",
        ])
        .prop_map(|s| s.to_string()),
        0..3,
    );
    (bad, good, any::<bool>())
        .prop_map(|(b, mut g, front)| {
            // never give the same key twice (what serde_urlencoded does then is not specified)
            let key = b.split('=').next().unwrap().to_string();
            g.retain(|x| !x.starts_with(&format!("{key}=")));
            g.dedup_by_key(|x| x.split('=').next().unwrap().to_string());
            let mut seen = std::collections::BTreeSet::new();
            g.retain(|x| seen.insert(x.split('=').next().unwrap().to_string()));
            if front {
                g.insert(0, b);
            } else {
                g.push(b);
            }
            g.join("&")
        })
        .boxed()
}

fn topic_any() -> BoxedStrategy<String> {
    prop_oneof![
        4 => topic_general(),
        2 => "\\PC{0,12}",
        1 => proptest::sample::select(vec!["\"", "\\", "\n", "\u{7f}", "\u{2028}", "\u{1F600}", "a\"b\\c", "\u{fffd}", "\u{1}"])
            .prop_map(|s| s.to_string()),
    ]
    .boxed()
}

fn frame_spec() -> BoxedStrategy<FrameSpec> {
    (
        topic_any(),
        id_any(),
        id_any(),
        meta_opt(MetaMode::Full),
        prop_oneof![2 => Just(None), 6 => ttl_value().prop_map(Some)],
    )
        .prop_map(|(topic, ctx, id, meta, ttl)| FrameSpec {
            topic,
            ctx,
            id: Some(id),
            hash: None,
            meta,
            ttl,
        })
        .boxed()
}

pub fn pure_strategy() -> BoxedStrategy<Pure> {
    prop_oneof![
        3 => ttl_value().prop_map(Pure::Ttl),
        3 => ttl_string().prop_map(Pure::TtlString),
        4 => ropts().prop_map(Pure::Opts),
        1 => ropts().prop_map(Pure::OptsHeartbeatZero),
        2 => bad_opts().prop_map(Pure::BadOpts),
        2 => (0u8..9, 0u8..9, proptest::option::weighted(0.4, 0u32..1000), any::<bool>()).prop_map(|(f, t, l, x)| Pure::OptsSpelled(f, t, l, x)),
        4 => (frame_spec(), 0u8..6, any::<bool>()).prop_map(|(spec, hash_kind, sparse)| Pure::FrameJson { spec, hash_kind, sparse }),
    ]
    .boxed()
}

fn f(class: Class, msg: String) -> Fail {
    Fail::new(class, msg)
}

fn hash_for(kind: u8, id: u128) -> Option<String> {
    use sha2::Digest;
    let bytes = id.to_le_bytes();
    match kind {
        0 => None,
        1 | 2 => Some(sha256_integrity(&bytes)),
        3 => Some(format!("sha512-{}", b64(&sha2::Sha512::digest(bytes)))),
        4 => Some(format!("sha1-{}", b64(&sha2::Sha256::digest(bytes)[..20]))),
        _ => Some(format!(
            "sha512-{} {}",
            b64(&sha2::Sha512::digest(bytes)),
            sha256_integrity(&bytes)
        )),
    }
}

pub fn check_pure(case: &Pure) -> Result<CaseInfo, Fail> {
    let mut info = CaseInfo {
        checks: 1,
        ..Default::default()
    };
    match case {
        Pure::Ttl(t) => {
            let x = t.to_xs();
            let sp = t.spelling();
            // documented spellings, independently of the parser
            let q = x.to_query();
            if q != format!("ttl={sp}") {
                return Err(f(Class::Field, format!("TTL {t:?} prints as query {q:?}, documented spelling is ttl={sp}")));
            }
            let j = serde_json::to_string(&x).map_err(|e| f(Class::Field, format!("TTL {t:?} does not serialise: {e}")))?;
            if j != format!("\"{sp}\"") {
                return Err(f(Class::Field, format!("TTL {t:?} serialises as {j}, documented spelling is \"{sp}\"")));
            }
            match TTL::from_query(Some(&q)) {
                Ok(back) if back == x => {}
                other => return Err(f(Class::Field, format!("TTL {t:?} -> {q:?} -> from_query gives {other:?}"))),
            }
            match serde_json::from_str::<TTL>(&j) {
                Ok(back) if back == x => {}
                other => return Err(f(Class::Field, format!("TTL {t:?} -> {j} -> JSON parse gives {other:?}"))),
            }
            match parse_ttl(&sp) {
                Ok(back) if back == x => {}
                other => return Err(f(Class::Field, format!("parse_ttl({sp:?}) gives {other:?} for {t:?}"))),
            }
            info.labels.push("ttl-roundtrip".into());
            info.nontrivial = matches!(t, WTtl::Time(n) if *n > (1 << 32)) || matches!(t, WTtl::Head(k) if *k > 2);
            info.shape = hash64(format!("ttl{t:?}").as_bytes());
        }
        Pure::TtlString(s) => {
            let got = parse_ttl(s);
            let want = WTtl::parse_spelling(s);
            let unspecified = s.contains('+');
            if !unspecified {
                match (&got, &want) {
                    (Ok(g), Some(w)) if WTtl::from_xs(g) == *w => {}
                    (Err(_), None) => {}
                    _ => {
                        return Err(f(
                            Class::Field,
                            format!("parse_ttl({s:?}) = {got:?} but the documented grammar gives {want:?}"),
                        ))
                    }
                }
                // the same string through the query-string and JSON boundaries
                let q = format!("ttl={}", crate::http::pct_encode_query(s));
                let gq = TTL::from_query(Some(&q));
                if gq.is_ok() != want.is_some() {
                    return Err(f(Class::Field, format!("TTL::from_query({q:?}) = {gq:?} but the grammar gives {want:?}")));
                }
                let js = serde_json::to_string(s).unwrap();
                let gj = serde_json::from_str::<TTL>(&js);
                if gj.is_ok() != want.is_some() {
                    return Err(f(Class::Field, format!("TTL from JSON {js} = {gj:?} but the grammar gives {want:?}")));
                }
            }
            if let Ok(g) = &got {
                // print(parse(s)) must re-parse to the same value
                let j = serde_json::to_string(g).unwrap();
                match serde_json::from_str::<TTL>(&j) {
                    Ok(b) if b == *g => {}
                    other => return Err(f(Class::Field, format!("accepted TTL string {s:?} prints as {j} which parses to {other:?}"))),
                }
            }
            info.labels.push(if got.is_ok() { "ttl-string-accepted" } else { "ttl-string-rejected" }.into());
            info.nontrivial = !["forever", "ephemeral", "time:60000", "head:3", "head:0", "invalid"].contains(&s.as_str());
            info.shape = hash64(format!("ts{s}").as_bytes());
        }
        Pure::Opts(o) => {
            let x = o.to_xs();
            let q = x.to_query_string();
            let back = ReadOptions::from_query(if q.is_empty() { None } else { Some(&q) });
            match &back {
                Ok(b) if *b == x => {}
                other => {
                    return Err(f(
                        Class::Field,
                        format!("ReadOptions {o:?} -> query {q:?} -> parsed back as {:?}", other.as_ref().map_err(|e| e.to_string())),
                    ))
                }
            }
            // and field by field against the harness's own view of the value
            let b = back.unwrap();
            let follow = match b.follow {
                FollowOption::Off => None,
                FollowOption::On => Some(0),
                FollowOption::WithHeartbeat(d) => Some(d.as_millis() as u64),
            };
            if follow != o.follow
                || b.tail != o.tail
                || b.last_id.map(|i| i.to_u128()) != o.last_id
                || b.limit != o.limit
                || b.context_id.map(|i| i.to_u128()) != o.ctx
                || matches!(b.follow, FollowOption::WithHeartbeat(d) if d != Duration::from_millis(o.follow.unwrap_or(0)))
            {
                return Err(f(Class::Field, format!("ReadOptions {o:?} arrived at the server as {b:?} (query {q:?})")));
            }
            // the same query also has to parse when the client sends it as "?<q>" literally
            let set = [o.follow.is_some(), o.tail, o.last_id.is_some(), o.limit.is_some(), o.ctx.is_some()]
                .iter()
                .filter(|x| **x)
                .count();
            info.labels.push("opts-roundtrip".into());
            info.nontrivial = set >= 3;
            info.shape = hash64(format!("o{:?}{}{}{}{}", o.follow.map(|x| x.min(2)), o.tail, o.last_id.is_some(), o.limit.is_some(), o.ctx.is_some()).as_bytes())
                ^ hash64(q.as_bytes());
        }
        Pure::OptsHeartbeatZero(o) => {
            let mut x = o.to_xs();
            x.follow = FollowOption::WithHeartbeat(Duration::ZERO);
            let q = x.to_query_string();
            let back = ReadOptions::from_query(if q.is_empty() { None } else { Some(&q) });
            match &back {
                Ok(b) if *b == x => {}
                other => {
                    return Err(f(
                        Class::Field,
                        format!("ReadOptions {x:?} -> query {q:?} -> parsed back as {:?}", other.as_ref().map_err(|e| e.to_string())),
                    ))
                }
            }
            info.labels.push("opts-roundtrip-heartbeat-0".into());
            info.nontrivial = true;
            info.shape = hash64(q.as_bytes());
        }
        Pure::OptsSpelled(fsp, tsp, limit, extra) => {
            // (the spellings and their meaning: ReadOptions::from_query's documented and tested
            // forms - a bare flag or an empty value switches it on, false/no(/0 for tail) off)
            let (fq, fwant): (Option<&str>, FollowOption) = match fsp % 9 {
                0 => (None, FollowOption::Off),
                1 => (Some("follow"), FollowOption::On),
                2 => (Some("follow="), FollowOption::On),
                3 => (Some("follow=yes"), FollowOption::On),
                4 => (Some("follow=true"), FollowOption::On),
                5 => (Some("follow=false"), FollowOption::Off),
                6 => (Some("follow=no"), FollowOption::Off),
                7 => (Some("follow=250"), FollowOption::WithHeartbeat(Duration::from_millis(250))),
                _ => (Some("follow=0"), FollowOption::WithHeartbeat(Duration::ZERO)),
            };
            let (tq, twant): (Option<&str>, bool) = match tsp % 9 {
                0 => (None, false),
                1 => (Some("tail"), true),
                2 => (Some("tail="), true),
                3 => (Some("tail=true"), true),
                4 => (Some("tail=yes"), true),
                5 => (Some("tail=1"), true),
                6 => (Some("tail=false"), false),
                7 => (Some("tail=no"), false),
                _ => (Some("tail=0"), false),
            };
            let mut parts: Vec<String> = vec![];
            if *extra {
                parts.push("foo=bar".into());
            }
            // tail first in half of the cases
            if tsp % 2 == 0 {
                parts.extend(tq.map(|s| s.to_string()));
                parts.extend(fq.map(|s| s.to_string()));
            } else {
                parts.extend(fq.map(|s| s.to_string()));
                parts.extend(tq.map(|s| s.to_string()));
            }
            if let Some(l) = limit {
                parts.push(format!("limit={l}"));
            }
            let q = parts.join("&");
            let got = ReadOptions::from_query(if q.is_empty() { None } else { Some(&q) });
            let want = ReadOptions {
                follow: fwant,
                tail: twant,
                last_id: None,
                limit: limit.map(|l| l as usize),
                context_id: None,
            };
            match &got {
                Ok(g) if *g == want => {}
                other => {
                    return Err(f(
                        Class::Field,
                        format!("query {q:?} parsed as {:?}; its spelling means {want:?}", other.as_ref().map_err(|e| e.to_string())),
                    ))
                }
            }
            info.labels.push("opts-hand-spelled".into());
            info.nontrivial = fq.is_some() && tq.is_some();
            info.shape = hash64(q.as_bytes());
        }
        Pure::BadOpts(q) => {
            if let Ok(o) = ReadOptions::from_query(Some(q)) {
                return Err(f(
                    Class::Field,
                    format!("malformed option string {q:?} was accepted as {o:?}"),
                ));
            }
            info.labels.push("bad-opts-rejected".into());
            info.nontrivial = q.contains('&');
            info.shape = hash64(format!("b{q}").as_bytes());
        }
        Pure::FrameJson { spec, hash_kind, sparse } => {
            let mut spec = spec.clone();
            spec.hash = hash_for(*hash_kind, spec.id.unwrap());
            let frame: Frame = spec.to_xs().map_err(|e| f(Class::Field, format!("hash {:?} does not parse: {e}", spec.hash)))?;
            let depth = spec.meta.as_ref().map(|m| m.depth()).unwrap_or(0);
            // 1. value -> JSON -> value
            let text = serde_json::to_string(&frame).map_err(|e| f(Class::Field, format!("frame does not serialise: {e}")))?;
            match serde_json::from_str::<Frame>(&text) {
                Ok(back) => {
                    if back != frame {
                        return Err(f(Class::Field, format!("frame {:?} parses back from its own JSON as {:?}", frame, back)));
                    }
                    let again = serde_json::to_string(&back).unwrap();
                    if again != text {
                        return Err(f(Class::Field, format!("frame JSON is not stable: {text} then {again}")));
                    }
                }
                Err(e) => {
                    if depth <= 100 {
                        return Err(f(Class::Field, format!("frame's own JSON does not parse back ({e}): {}", text.chars().take(300).collect::<String>())));
                    }
                    info.labels.push("frame-json-unparseable-deep".into());
                }
            }
            // 2. the rendering is what the docs say: decode it with the harness's decoder
            if depth <= 100 {
                let v = parse_json_deep(text.as_bytes()).map_err(|e| f(Class::Field, format!("frame JSON is not JSON: {e}")))?;
                let w = wframe_from_json(&v).map_err(|e| f(Class::Field, format!("frame JSON {text}: {e}")))?;
                let want = WFrame {
                    id: id_str(spec.id.unwrap()),
                    ctx: id_str(spec.ctx),
                    topic: spec.topic.clone(),
                    hash: frame.hash.as_ref().map(|h| h.to_string()),
                    meta: spec.meta_printed(),
                    ttl: spec.ttl.clone(),
                };
                if w != want {
                    return Err(f(Class::Field, format!("frame JSON decodes as {w:?}, expected {want:?}")));
                }
            }
            // 3. text -> value -> text: the import direction, from a hand-built JSON text
            let jt = frame_json_for_import_opt(&spec, *sparse);
            match serde_json::from_str::<Frame>(&jt) {
                Ok(parsed) => {
                    if parsed != frame {
                        return Err(f(Class::Field, format!("import JSON {} parses as {:?}, expected {:?}", jt.chars().take(300).collect::<String>(), parsed, frame)));
                    }
                }
                Err(e) => {
                    if depth <= 100 {
                        return Err(f(Class::Field, format!("import JSON does not parse ({e}): {}", jt.chars().take(300).collect::<String>())));
                    }
                }
            }
            info.labels.push("frame-json".into());
            info.nontrivial = depth >= 3 || spec.meta.as_ref().map(|m| m.has_float()).unwrap_or(false);
            info.shape = hash64(text.as_bytes());
        }
    }
    Ok(info)
}

/// Coverage-guided campaign (thorough tier): the libFuzzer target `fuzz/fuzz_targets/wire.rs`
/// carries the same oracles as the pure cases. Returns (executions, jobs) or the path of a
/// crashing input.
fn fuzz_campaign(seed: u64, secs: u64, jobs: usize) -> Result<(u64, usize), Result<std::path::PathBuf, String>> {
    use std::process::Command;
    let root = std::path::Path::new(env!("CARGO_MANIFEST_DIR")).parent().unwrap().to_path_buf();
    let fuzz_dir = root.join("fuzz");
    let build = Command::new("cargo")
        .args(["+nightly", "fuzz", "build", "--fuzz-dir"])
        .arg(&fuzz_dir)
        .arg("wire")
        .env("CARGO_NET_OFFLINE", "true")
        .output()
        .map_err(|e| Err(format!("cargo fuzz build: {e}")))?;
    if !build.status.success() {
        return Err(Err(format!(
            "cargo fuzz build failed: {}",
            String::from_utf8_lossy(&build.stderr).lines().rev().take(5).collect::<Vec<_>>().join(" | ")
        )));
    }
    let bin = fuzz_dir.join("target/x86_64-unknown-linux-gnu/release/wire");
    let work = crate::client::scratch_root().join("fuzz");
    let _ = std::fs::remove_dir_all(&work);
    let mut children = vec![];
    for j in 0..jobs {
        let corpus = work.join(format!("corpus{j}"));
        let arts = work.join(format!("artifacts{j}"));
        std::fs::create_dir_all(&corpus).map_err(|e| Err(e.to_string()))?;
        std::fs::create_dir_all(&arts).map_err(|e| Err(e.to_string()))?;
        // a fresh corpus copy per job: half of the jobs start from the seed inputs, half from nothing
        if j % 2 == 0 {
            if let Ok(rd) = std::fs::read_dir(fuzz_dir.join("seeds/wire")) {
                for e in rd.flatten() {
                    let _ = std::fs::copy(e.path(), corpus.join(e.file_name()));
                }
            }
        }
        let child = Command::new(&bin)
            .arg(&corpus)
            .arg(format!("-dict={}", fuzz_dir.join("wire.dict").display()))
            .arg(format!("-max_total_time={secs}"))
            .arg("-len_control=0")
            .arg("-max_len=4096")
            .arg(format!("-seed={}", seed.wrapping_mul(1000).wrapping_add(j as u64 + 1)))
            .arg(format!("-artifact_prefix={}/", arts.display()))
            .arg("-print_final_stats=1")
            .stdout(std::process::Stdio::null())
            .stderr(std::process::Stdio::piped())
            .spawn()
            .map_err(|e| Err(format!("spawn fuzzer: {e}")))?;
        children.push((child, arts));
    }
    let mut execs = 0u64;
    let mut crash: Option<std::path::PathBuf> = None;
    for (child, arts) in children {
        let out = child.wait_with_output().map_err(|e| Err(e.to_string()))?;
        let err = String::from_utf8_lossy(&out.stderr);
        for l in err.lines() {
            if let Some(n) = l.strip_prefix("stat::number_of_executed_units:") {
                execs += n.trim().parse::<u64>().unwrap_or(0);
            }
        }
        if !out.status.success() {
            if let Ok(rd) = std::fs::read_dir(&arts) {
                for e in rd.flatten() {
                    let name = e.file_name().to_string_lossy().to_string();
                    if name.starts_with("crash-") {
                        let dst = verif_root().join("replays").join("C12");
                        let _ = std::fs::create_dir_all(&dst);
                        let to = dst.join(format!("fuzz-wire-{name}.bin"));
                        let _ = std::fs::copy(e.path(), &to);
                        println!(
                            "libFuzzer target `wire` failed: {}",
                            err.lines().filter(|l| l.contains("panicked") || l.contains("assert")).take(2).collect::<Vec<_>>().join(" | ")
                        );
                        crash = Some(to);
                    }
                }
            }
        }
    }
    let _ = std::fs::remove_dir_all(&work);
    match crash {
        Some(p) => Err(Ok(p)),
        None => Ok((execs, jobs)),
    }
}

pub fn run(tier: Tier, seed: u64, replay: Option<&std::path::Path>) -> i32 {
    let started = Instant::now();
    let prof_api = profile("C12");
    let mut prof_http = profile("C12");
    prof_http.access = Access::Http;
    prof_http.topics = crate::hist::TopicMode::HttpSafe;
    // requests that must be refused at the boundary (bad TTLs, ids, contexts, options) and never stored
    prof_http.w_bad = 15;
    let hist_test = |case: &HistCase| -> Result<CaseInfo, Fail> {
        let (mut info, fl) = run_history(case)?;
        info.nontrivial = fl.had_import || fl.had_reopen;
        info.labels.push(format!("e2e-{:?}", case.access).to_lowercase());
        Ok(info)
    };
    if let Some(path) = replay {
        let res = match load_replay::<Pure>(path) {
            Ok(c) => check_pure(&c).map(|_| ()),
            Err(_) => match load_replay::<HistCase>(path) {
                Ok(c) => hist_test(&c).map(|_| ()),
                Err(e) => {
                    eprintln!("cannot load replay: {e}");
                    return 2;
                }
            },
        };
        return match res {
            Ok(()) => {
                println!("replay {} passes", path.display());
                0
            }
            Err(fl) if fl.msg.starts_with(INFRA) => {
                eprintln!("INFRASTRUCTURE: {}", fl.msg);
                2
            }
            Err(fl) => {
                println!("failure class={:?}: {}", fl.class, fl.msg);
                println!("VIOLATION property=C12 replay={}", path.display());
                1
            }
        };
    }
    for path in replay_files("C12") {
        let res = match load_replay::<Pure>(&path) {
            Ok(c) => check_pure(&c).map(|_| ()),
            Err(_) => match load_replay::<HistCase>(&path) {
                Ok(c) => hist_test(&c).map(|_| ()),
                Err(_) => Ok(()),
            },
        };
        if let Err(fl) = res {
            if fl.msg.starts_with(INFRA) {
                eprintln!("INFRASTRUCTURE: {}", fl.msg);
                return 2;
            }
            println!("failure class={:?}: {}", fl.class, fl.msg);
            println!("VIOLATION property=C12 replay={}", path.display());
            return 1;
        }
    }
    let (n_pure, n_hist) = match tier {
        Tier::Quick => (240_000, 1_600),
        Tier::Thorough => (4_000_000, 12_000),
    };
    let mut out = run_sharded("C12-pure", seed, n_pure, 2000, pure_strategy, check_pure);
    if out.failure.is_none() && out.infra.is_none() {
        let o2 = run_sharded("C12-e2e-api", seed, n_hist / 2, 300, || hist_strategy(&prof_api), hist_test);
        let o3 = if o2.failure.is_none() && o2.infra.is_none() {
            Some(run_sharded("C12-e2e-http", seed, n_hist / 2, 300, || hist_strategy(&prof_http), hist_test))
        } else {
            None
        };
        for o in std::iter::once(o2).chain(o3) {
            out.stats.evaluations += o.stats.evaluations;
            out.stats.nontrivial += o.stats.nontrivial;
            out.stats.checks += o.stats.checks;
            out.stats.shapes.extend(o.stats.shapes);
            for (k, v) in o.stats.labels {
                *out.stats.labels.entry(k).or_insert(0) += v;
            }
            for (k, v) in o.stats.known {
                *out.stats.known.entry(k).or_insert(0) += v;
            }
            out.stats.samples.extend(o.stats.samples.into_iter().take(2));
            if out.failure.is_none() {
                out.failure = o.failure;
            }
            if out.infra.is_none() {
                out.infra = o.infra;
            }
        }
    }
    let mut fuzz_extra = json!({"libfuzzer": "not run in the quick tier"});
    if tier == Tier::Thorough && out.failure.is_none() && out.infra.is_none() {
        match fuzz_campaign(seed, 240, 4) {
            Ok((execs, jobs)) => {
                fuzz_extra = json!({"libfuzzer_target": "wire", "jobs": jobs, "seconds_per_job": 240, "executions": execs, "crashes": 0});
                out.stats.evaluations += execs;
                *out.stats.labels.entry("libfuzzer-executions".into()).or_insert(0) += execs;
            }
            Err(Ok(path)) => {
                println!("VIOLATION property=C12 replay={}", path.display());
                return 1;
            }
            Err(Err(e)) => {
                eprintln!("INFRASTRUCTURE: {e}");
                return 2;
            }
        }
    }
    let report = Report {
        prop: "C12",
        tier,
        seed,
        level: "exploration",
        rule: "pure cases: every TTL value through to_query/from_query, serde JSON and parse_ttl against the documented spellings; strings one edit away from the TTL grammar against a harness-owned grammar; every ReadOptions value through to_query_string -> from_query field by field; option strings with one malformed value must be rejected; hand-spelled option strings (bare flags, yes/no/true/false/1/0, heartbeat 0, extra parameters, either order) must parse to what their spelling means; Frame values (any topic, ids, sha1/256/512 and multi-hash integrity strings, meta with floats by bit pattern, huge integers, escapes, nesting up to 130) value->JSON->value, JSON decoded field by field, and hand-built import JSON -> value. End-to-end cases: histories of appends (Store API and xs-meta header) and imports (POST /import) with the same meta domain, then get / reads / reopen against the reference model. Non-trivial = TTL with N > 2^32 or K > 2; options with >= 3 fields set; frame with meta depth >= 3 or a non-integer number; end-to-end case with an import or a reopen. Distinct by value hash. Thorough tier additionally: libFuzzer target `wire` (bytes tried as TTL spelling, query string and frame JSON with the same oracles inside the target), 4 jobs x 120 s from seed inputs / from nothing with a dictionary of the option alphabet.",
        assumptions: vec![
            "whether a meta nested deeper than 100 levels is accepted is left to xs; accepted ones must read back".into(),
            "TTL strings containing '+' are not compared (Rust's integer parser accepts a leading '+', the docs do not say)".into(),
            "option strings never repeat a key".into(),
        ],
        extra: json!({"pure_cases": n_pure, "end_to_end_cases": n_hist, "coverage_guided": fuzz_extra}),
    };
    finish(&report, out, started, |_| "C12".to_string())
}
