//! C14: a handler is invoked exactly once per frame of its context, in id order,
//! one at a time, never for its own output or for registration traffic of its
//! own name that preceded it; its environment carries over between invocations.

use std::time::Duration;

use proptest::prelude::*;
use proptest::strategy::BoxedStrategy;
use serde::{Deserialize, Serialize};

use crate::director::*;
use crate::hist::must;
use crate::model::*;
use crate::nu::*;
use crate::runner::*;
use crate::wire::*;

#[derive(Clone, Debug, PartialEq, Serialize, Deserialize)]
pub enum Resume {
    Head,
    Tail,
    /// after the k-th frame of the pre-history
    After(u16),
}

#[derive(Clone, Debug, Serialize, Deserialize)]
pub struct C14Case {
    /// 0 = zero context, 1..2 registered
    pub ctx: u8,
    pub resume: Resume,
    /// pre-history: (in the handler's context?, topic index)
    pub pre: Vec<(bool, u8)>,
    /// an earlier lifecycle of the same name (register, one trigger, unregister) in the history
    pub earlier_lifecycle: bool,
    /// a second handler "g" in the same context that answers `trig` frames
    pub other_handler: bool,
    /// bursts appended by concurrent writers while the handler is busy: per writer, (own ctx?, ephemeral?)
    pub bursts: Vec<Vec<(bool, bool)>>,
    pub busy_ms: u8,
    pub pulse_ms: Option<u8>,
    /// the recorder also emits an explicit `.append` on a topic outside its own name
    #[serde(default)]
    pub explicit_append: bool,
    /// additionally, this many trigger frames are appended by two writers as fast as they can
    /// while the (slow) handler works. Its own outputs queue up behind the triggers, so the
    /// backlog peaks at 2-3x this number: 130..320 stays far above the 100-slot delivery
    /// buffer and safely below the 1024-slot broadcast buffer (everything must be processed);
    /// 500..650 may overrun it (then the handler's subscription ends: it must have processed
    /// a gap-free prefix and must announce that it stopped). No second handler in such cases.
    #[serde(default)]
    pub big_burst: u16,
    /// the recorder stays silent for frames of topic `note` (it counts them in its environment
    /// and returns nothing): environment set by an invocation that reports nothing must still
    /// be there for the next one
    #[serde(default)]
    pub quiet_notes: bool,
}

const TOPICS: &[&str] = &["trig", "note", "h.out", "h.registered", "x.register", "g.out"];

pub fn strategy() -> BoxedStrategy<C14Case> {
    (
        0u8..3,
        prop_oneof![2 => Just(Resume::Head), 2 => Just(Resume::Tail), 1 => any::<u16>().prop_map(Resume::After)],
        proptest::collection::vec((prop_oneof![3 => Just(true), 1 => Just(false)], 0u8..6), 0..10),
        any::<bool>(),
        any::<bool>(),
        proptest::collection::vec(
            proptest::collection::vec((prop_oneof![4 => Just(true), 1 => Just(false)], prop_oneof![6 => Just(false), 1 => Just(true)]), 1..6),
            1..=3,
        ),
        prop_oneof![2 => Just(0u8), 2 => 1u8..6],
        proptest::option::weighted(0.15, 15u8..40),
        any::<bool>(),
        prop_oneof![24 => Just(0u16), 2 => 130u16..320, 1 => 500u16..650],
        proptest::bool::weighted(0.35),
    )
        .prop_map(|(ctx, resume, pre, earlier_lifecycle, other_handler, bursts, busy_ms, pulse_ms, explicit_append, big_burst, quiet_notes)| C14Case {
            ctx,
            resume,
            pre,
            earlier_lifecycle,
            other_handler,
            bursts,
            busy_ms,
            pulse_ms,
            explicit_append,
            big_burst,
            quiet_notes,
        })
        .boxed()
}

fn recorder_script(resume: &str, busy_ms: u8, pulse: Option<u8>, explicit: bool, quiet: bool) -> String {
    format!(
        r#"$env.n = 0
def --env bump [] {{
  $env.n = $env.n + 1
  $env.n
}}
{{
  resume_from: {resume}
  {pulse}
  run: {{|frame|
    {quiet}
    {busy}
    {explicit}
    {{seen: $frame.id, topic: $frame.topic, ctx: $frame.context_id, hash: ($frame.hash? | default "none"), meta: ($frame.meta? | default null), n: (bump)}}
  }}
}}
"#,
        resume = nu_str(resume),
        quiet = if quiet { "if $frame.topic == \"note\" { bump | ignore; return }" } else { "" },
        pulse = pulse.map(|p| format!("pulse: {p}")).unwrap_or_default(),
        explicit = if explicit { "\"copy\" | .append \"copies\"" } else { "" },
        busy = if busy_ms > 0 {
            format!("if $frame.topic == \"trig\" {{ sleep {busy_ms}ms }}")
        } else {
            String::new()
        },
    )
}

const ECHO_SCRIPT: &str = r#"{
  run: {|frame|
    if $frame.topic == "stop.h" { null | .append "h.unregister"; return }
    if $frame.topic != "trig" { return }
    "echo"
  }
}"#;

fn bad(msg: String) -> Fail {
    Fail::new(Class::Follow, msg)
}

pub fn run_case(case: &C14Case) -> Result<CaseInfo, Fail> {
    let mut nu = Nu::start(true, false, false)?;
    let r = run_in(case, &mut nu);
    nu.finish();
    r
}

fn wait_for(nu: &mut Nu, what: &str, pred: impl FnMut(&[WFrame]) -> bool) -> Result<Vec<WFrame>, Fail> {
    // (answers normally take milliseconds; one thorough run that shared the machine with several
    // other campaigns saw a 20 s wait expire on a case that passes when replayed)
    wait_for_secs(nu, 60, what, pred)
}

fn wait_for_secs(nu: &mut Nu, secs: u64, what: &str, pred: impl FnMut(&[WFrame]) -> bool) -> Result<Vec<WFrame>, Fail> {
    let (fr, ok) = nu.wait(Duration::from_secs(secs), pred)?;
    if !ok {
        return Err(bad(format!("{what} did not happen within {secs} s")));
    }
    Ok(fr)
}

fn run_in(case: &C14Case, nu: &mut Nu) -> Result<CaseInfo, Fail> {
    let mut ctxs = vec![ZERO];
    for _ in 0..2 {
        ctxs.push(nu.register_ctx()?);
    }
    let hctx = ctxs[case.ctx as usize % 3];
    let other = ctxs[(case.ctx as usize + 1) % 3];

    // ---- history -------------------------------------------------------------------
    if case.earlier_lifecycle {
        let v1 = nu.append("h.register", hctx, Some(recorder_script("tail", 0, None, false, false).as_bytes()), None)?;
        wait_for(nu, "the earlier registration of h", |fr| {
            fr.iter().any(|w| w.topic == "h.registered" && meta_of(w, "handler_id").as_deref() == Some(&v1.id))
        })?;
        let t = nu.append("trig", hctx, None, None)?;
        wait_for(nu, "the earlier instance's answer", |fr| {
            fr.iter().any(|w| w.topic == "h.out" && meta_of(w, "frame_id").as_deref() == Some(&t.id))
        })?;
        nu.append("h.unregister", hctx, None, None)?;
        wait_for(nu, "the earlier instance's h.unregistered", |fr| {
            fr.iter().any(|w| w.topic == "h.unregistered" && meta_of(w, "handler_id").as_deref() == Some(&v1.id))
        })?;
    }
    let mut pre_in_ctx: Vec<WFrame> = Vec::new();
    for (own, ti) in &case.pre {
        let w = nu.append(TOPICS[*ti as usize % TOPICS.len()], if *own { hctx } else { other }, None, None)?;
        if *own {
            pre_in_ctx.push(w);
        }
    }
    if case.other_handler && case.big_burst == 0 {
        let g = nu.append("g.register", hctx, Some(ECHO_SCRIPT.as_bytes()), None)?;
        wait_for(nu, "registration of g", |fr| {
            fr.iter().any(|w| w.topic == "g.registered" && meta_of(w, "handler_id").as_deref() == Some(&g.id))
        })?;
    }
    let history: Vec<WFrame> = nu.frames()?;

    // ---- the handler under test ---------------------------------------------------------
    let (resume_str, resume_after): (String, Option<u128>) = match &case.resume {
        Resume::Head => ("head".into(), None),
        Resume::Tail => ("tail".into(), None),
        Resume::After(k) => {
            let in_ctx: Vec<&WFrame> = history.iter().filter(|w| w.ctx128() == hctx && w.ttl != Some(WTtl::Ephemeral)).collect();
            match crate::gen::pick(*k, in_ctx.len()) {
                Some(i) => (in_ctx[i].id.clone(), Some(in_ctx[i].id128())),
                None => ("head".into(), None),
            }
        }
    };
    let tail = resume_str == "tail";
    let busy_ms = if case.big_burst > 0 { case.busy_ms.max(2) } else { case.busy_ms };
    let script = recorder_script(&resume_str, busy_ms, case.pulse_ms, case.explicit_append, case.quiet_notes);
    let reg = nu.append("h.register", hctx, Some(script.as_bytes()), None)?;
    let after_reg = wait_for(nu, "h.registered", |fr| {
        fr.iter().any(|w| (w.topic == "h.registered" || w.topic == "h.unregistered") && meta_of(w, "handler_id").as_deref() == Some(&reg.id))
    })?;
    if let Some(u) = after_reg.iter().find(|w| w.topic == "h.unregistered" && meta_of(w, "handler_id").as_deref() == Some(&reg.id)) {
        return Err(bad(format!("the recorder handler was refused: {:?}\n{script}", u.meta)));
    }
    let registered_id = after_reg
        .iter()
        .find(|w| w.topic == "h.registered" && meta_of(w, "handler_id").as_deref() == Some(&reg.id))
        .map(|w| w.id128())
        .unwrap();

    // ---- bursts from concurrent writers while it is busy -----------------------------------
    let mut writers: Vec<WriterSpec> = case
        .bursts
        .iter()
        .map(|b| WriterSpec {
            remove_lag: None,
            start_delay_us: 0,
            frames: b
                .iter()
                .enumerate()
                .map(|(i, (own, eph))| {
                    (
                        fspec(
                            if case.quiet_notes && i % 3 == 2 { "note" } else { "trig" },
                            if *own { hctx } else { other },
                            // every other trigger carries meta: the closure must be handed the frame as stored
                            if i % 2 == 1 {
                                Some(MetaVal::O(vec![
                                    ("k".into(), MetaVal::I(i as i64 - 3)),
                                    (
                                        "nested".into(),
                                        MetaVal::O(vec![(
                                            "a".into(),
                                            MetaVal::A(vec![MetaVal::I(1), MetaVal::S("x \u{e9}".into()), MetaVal::Null, MetaVal::F(1.5f64.to_bits()), MetaVal::Bool(true)]),
                                        )]),
                                    ),
                                ]))
                            } else {
                                None
                            },
                            // ephemeral triggers only where no replay can be in progress (tail)
                            if *eph && tail { Some(WTtl::Ephemeral) } else { None },
                        ),
                        0,
                    )
                })
                .collect(),
        })
        .collect();
    if case.big_burst > 0 {
        for _ in 0..2 {
            writers.push(WriterSpec {
                remove_lag: None,
                start_delay_us: 0,
                frames: (0..case.big_burst / 2).map(|_| (fspec("trig", hctx, None, None), 0)).collect(),
            });
        }
    }
    must(
        "burst",
        nu.exec.scenario(&ScenarioSpec {
            writers,
            ..Default::default()
        }),
    )?;
    let fin = nu.append("fin", hctx, None, None)?;
    let overrun = case.big_burst >= 450;
    let done = |fr: &[WFrame]| {
        fr.iter().any(|w| {
            (w.topic == "h.out" && meta_of(w, "frame_id").as_deref() == Some(&fin.id) && meta_of(w, "handler_id").as_deref() == Some(&reg.id))
                || (w.topic == "h.unregistered" && meta_of(w, "handler_id").as_deref() == Some(&reg.id))
        })
    };
    let all = if case.big_burst == 0 {
        wait_for(nu, "the handler's answer to the last frame of its context", done)?
    } else {
        // hundreds of invocations: wait as long as the handler makes progress (a new stamped
        // frame at least every 20 s), at most 5 minutes
        let hard = std::time::Instant::now() + Duration::from_secs(300);
        let mut last_count = 0usize;
        let mut last_progress = std::time::Instant::now();
        loop {
            let fr = nu.frames()?;
            if done(&fr) {
                break fr;
            }
            let count = fr.iter().filter(|w| meta_of(w, "handler_id").as_deref() == Some(&reg.id)).count();
            if count != last_count {
                last_count = count;
                last_progress = std::time::Instant::now();
            }
            if last_progress.elapsed() > Duration::from_secs(20) || std::time::Instant::now() > hard {
                return Err(bad(format!(
                    "after a burst of {} frames the handler went silent: {} frames carry its id, the last frame of its context is unanswered, and no h.unregistered announces that it stopped (20 s without progress)",
                    case.big_burst, count
                )));
            }
            std::thread::sleep(Duration::from_millis(20));
        }
    };
    let mut lagged_out = false;
    if let Some(u) = all.iter().find(|w| w.topic == "h.unregistered" && meta_of(w, "handler_id").as_deref() == Some(&reg.id)) {
        if overrun && meta_of(u, "error").is_some() {
            // its subscription ended under it (announced): what it processed must be a prefix
            lagged_out = true;
            std::thread::sleep(Duration::from_millis(50));
            let later = nu.frames()?;
            if let Some(x) = later.iter().find(|w| w.id128() > u.id128() && meta_of(w, "handler_id").as_deref() == Some(&reg.id)) {
                return Err(bad(format!("the handler announced that it stopped ({}) and still emitted {} afterwards", u.id, x.topic)));
            }
        } else {
            return Err(bad(format!("the recorder handler stopped by itself: {:?}", u.meta)));
        }
    }

    // the threshold of a replay that was still running when the live frames arrived comes
    // after them: give its invocation time to come out (bounded) before judging
    let mut all = all;
    if !tail {
        let deadline = std::time::Instant::now() + Duration::from_secs(10);
        loop {
            let mut found = false;
            for o in all.iter().filter(|w| w.topic == "h.out" && meta_of(w, "handler_id").as_deref() == Some(&reg.id)) {
                if let Some(h) = &o.hash {
                    let c = nu.content(h)?;
                    if String::from_utf8_lossy(&c).contains("\"topic\":\"xs.threshold\"") {
                        found = true;
                        break;
                    }
                }
            }
            if found || std::time::Instant::now() > deadline {
                break;
            }
            std::thread::sleep(Duration::from_millis(5));
            all = nu.frames()?;
        }
    }

    // ---- expectation ---------------------------------------------------------------------
    let own = |w: &WFrame| meta_of(w, "handler_id").as_deref() == Some(&reg.id);
    let reg_traffic_before = |w: &WFrame| (w.topic == "h.register" || w.topic == "h.unregister") && w.id128() <= reg.id128();
    let mut expected: Vec<String> = Vec::new();
    if !tail {
        for w in all.iter().filter(|w| w.id128() < registered_id) {
            if w.ctx128() != hctx || w.ttl == Some(WTtl::Ephemeral) {
                continue;
            }
            if let Some(a) = resume_after {
                if w.id128() <= a {
                    continue;
                }
            }
            if own(w) || reg_traffic_before(w) {
                continue;
            }
            expected.push(w.id.clone());
        }
    }
    let n_hist = expected.len();
    for w in all.iter().filter(|w| w.id128() > registered_id && w.id128() <= fin.id128()) {
        if w.ctx128() != hctx || own(w) {
            continue;
        }
        expected.push(w.id.clone());
    }
    // frames the recorder is invoked for without reporting them (it only counts them)
    let note_ids: std::collections::BTreeSet<String> = if case.quiet_notes {
        all.iter().filter(|w| w.topic == "note" && w.ctx128() == hctx).map(|w| w.id.clone()).collect()
    } else {
        Default::default()
    };
    let expected_full = expected.clone();
    let n_hist = expected_full[..n_hist].iter().filter(|id| !note_ids.contains(*id)).count();
    let mut expected: Vec<String> = expected_full.iter().filter(|id| !note_ids.contains(*id)).cloned().collect();
    let mut prev_n = 0i64;
    // what the recorder reported, in id order of its outputs
    let outs: Vec<&WFrame> = all.iter().filter(|w| w.topic == "h.out" && own(w)).collect();
    let mut seen: Vec<String> = Vec::new();
    let mut thresholds_at: Vec<usize> = Vec::new();
    let mut pulses = 0;
    for (i, o) in outs.iter().enumerate() {
        let h = o.hash.clone().ok_or_else(|| bad(format!("h.out {} has no content", o.id)))?;
        let c = nu.content(&h)?;
        let v: serde_json::Value = serde_json::from_slice(&c).map_err(|e| bad(format!("h.out content is not JSON: {e}")))?;
        let n = v["n"].as_i64().unwrap_or(-1);
        let s = v["seen"].as_str().unwrap_or("").to_string();
        // the counter counts every invocation, the silent ones included: output #i of a real
        // frame reads i plus the number of `note` frames the handler was invoked for before it
        let want_n = match expected_full.iter().position(|id| *id == s) {
            Some(p) => Some((i as i64) + 1 + expected_full[..p].iter().filter(|id| note_ids.contains(*id)).count() as i64),
            None if note_ids.is_empty() => Some((i as i64) + 1),
            None => None,
        };
        if want_n.map(|w| w != n).unwrap_or(n <= prev_n) {
            return Err(bad(format!(
                "invocation counter kept in the handler's environment reads {n} on its output #{} (expected {want_n:?}; {} silent invocations in this case) — invocations overlapped, repeated, or the environment was not carried over",
                i + 1,
                note_ids.len()
            )));
        }
        prev_n = n;
        // the closure is handed the frame as it is stored (synthetic markers are not stored)
        if let Some(fr) = all.iter().find(|w| w.id == s) {
            let want_hash = fr.hash.clone().unwrap_or("none".into());
            let want_meta = fr.meta_json().unwrap_or(serde_json::Value::Null);
            if v["ctx"].as_str() != Some(&fr.ctx) || v["hash"].as_str() != Some(&want_hash) || v["meta"] != want_meta || v["topic"].as_str() != Some(&fr.topic) {
                return Err(Fail::new(
                    Class::Field,
                    format!(
                        "the closure was handed frame {s} as (topic {}, context {}, hash {}, meta {}), the stored frame is (topic {:?}, context {}, hash {want_hash}, meta {want_meta})",
                        v["topic"], v["ctx"], v["hash"], v["meta"], fr.topic, fr.ctx
                    ),
                ));
            }
        }
        if meta_of(o, "frame_id").as_deref() != Some(&s) {
            return Err(Fail::new(Class::Field, format!("h.out {} is stamped frame_id {:?} but the closure was given frame {s}", o.id, meta_of(o, "frame_id"))));
        }
        match v["topic"].as_str() {
            Some("xs.threshold") => thresholds_at.push(seen.len()),
            Some("xs.pulse") => pulses += 1,
            _ => seen.push(s),
        }
    }
    // up to and including fin
    let upto = seen.iter().position(|s| *s == fin.id).map(|p| p + 1).unwrap_or(seen.len());
    let seen = &seen[..upto];
    if lagged_out {
        // a handler that could not keep up stops: everything before that point once, in order
        expected.truncate(seen.len());
    }
    if seen != expected.as_slice() {
        let topic_of = |id: &String| all.iter().find(|w| w.id == *id).map(|w| w.topic.clone()).unwrap_or("?".into());
        let extra: Vec<(String, String)> = seen.iter().filter(|s| !expected.contains(s)).map(|s| (s.clone(), topic_of(s))).collect();
        let missing: Vec<(String, String)> = expected.iter().filter(|s| !seen.contains(s)).map(|s| (s.clone(), topic_of(s))).collect();
        let dup = seen.len() != seen.iter().collect::<std::collections::BTreeSet<_>>().len();
        return Err(bad(format!(
            "handler (resume {resume_str:?}, context {}) was invoked for {} frames, its context holds {} it must see: invoked but must not: {extra:?}; never invoked: {missing:?}; repeated: {dup}; order equal: {}",
            id_str(hctx),
            seen.len(),
            expected.len(),
            {
                let mut a = seen.to_vec();
                a.sort();
                let mut b = seen.to_vec();
                b.dedup();
                a == *seen && b.len() == seen.len()
            }
        )));
    }
    if std::env::var_os("XSV_TRACE").is_some() {
        for o in &outs {
            let c = nu.content(o.hash.as_ref().unwrap())?;
            eprintln!("-- out {} {}", o.id, String::from_utf8_lossy(&c));
        }
        eprintln!("-- expected {:?} n_hist {n_hist} registered {} reg {}", expected, id_str(registered_id), reg.id);
        for w in &all {
            eprintln!("-- frame {} {} ctx {} meta {:?}", w.id, w.topic, w.ctx, w.meta);
        }
    }
    let want_thr = if tail { 0 } else { 1 };
    if thresholds_at.len() != want_thr {
        return Err(bad(format!("handler saw {} xs.threshold markers, expected {want_thr}", thresholds_at.len())));
    }
    if let Some(at) = thresholds_at.first() {
        // (frames appended while the replay is still running may legitimately come before it)
        if *at < n_hist {
            return Err(bad(format!("handler saw xs.threshold after {at} frames, its history holds {n_hist}")));
        }
    }
    if case.pulse_ms.is_none() && pulses > 0 {
        return Err(bad(format!("handler without pulse option was invoked for {pulses} xs.pulse frames")));
    }
    // "... until it is unregistered": the second handler of the context unregisters the recorder
    // from its closure (the `.unregister` frame then carries that handler's stamps); the recorder
    // announces its stop and is not invoked for what follows
    let mut stopped_by_peer = false;
    if case.other_handler && case.big_burst == 0 && !lagged_out {
        nu.append("stop.h", hctx, None, None)?;
        let rid = reg.id.clone();
        let (fr, ok) = nu.wait(Duration::from_secs(20), |fr| {
            fr.iter().any(|w| w.topic == "h.unregistered" && meta_of(w, "handler_id").as_deref() == Some(&rid))
        })?;
        if !ok {
            return Err(bad(format!(
                "another handler of the context appended h.unregister ({:?}) but the recorder {rid} never announced h.unregistered (20 s): it is still registered",
                fr.iter().filter(|w| w.topic == "h.unregister").map(|w| (&w.id, &w.meta)).collect::<Vec<_>>()
            )));
        }
        let late = nu.append("trig", hctx, None, None)?;
        // (the echo handler answers `late`: once its answer is out the recorder has had its chance)
        nu.wait(Duration::from_secs(10), |fr| fr.iter().any(|w| w.topic == "g.out" && meta_of(w, "frame_id").as_deref() == Some(&late.id)))?;
        std::thread::sleep(Duration::from_millis(20));
        if nu.frames()?.iter().any(|w| meta_of(w, "handler_id").as_deref() == Some(&rid) && meta_of(w, "frame_id").as_deref() == Some(&late.id)) {
            return Err(bad(format!("the recorder {rid} announced h.unregistered and was still invoked for frame {}", late.id)));
        }
        stopped_by_peer = true;
    }
    if let Some(p) = nu.panics()?.first() {
        return Err(Fail::new(Class::Panic, format!("xs panicked: {p}")));
    }
    let burst_total: usize = case.bursts.iter().map(|b| b.len()).sum();
    let own_output_in_history = case.earlier_lifecycle && !tail;
    let mut labels = vec![];
    for (on, name) in [
        (case.earlier_lifecycle, "earlier-lifecycle-in-history"),
        (case.other_handler && case.big_burst == 0, "second-handler-in-context"),
        (case.big_burst > 0, "burst-of-hundreds-while-busy"),
        (lagged_out, "handler-lagged-out-and-announced-it"),
        (stopped_by_peer, "unregistered-by-another-handler"),
        (!note_ids.is_empty(), "silent-invocations-keep-environment"),
        (case.busy_ms > 0, "busy-handler"),
        (case.pulse_ms.is_some(), "pulse"),
        (tail, "resume-tail"),
        (resume_after.is_some(), "resume-after-id"),
        (case.bursts.len() >= 2, "multi-writer-burst"),
    ] {
        if on {
            labels.push(name.to_string());
        }
    }
    Ok(CaseInfo {
        nontrivial: (case.busy_ms > 0 && burst_total >= 3) || own_output_in_history,
        shape: hash64(format!("{:?}", (case.ctx, &case.resume, &case.pre, case.earlier_lifecycle, case.other_handler, &case.bursts, case.busy_ms > 0, case.pulse_ms.is_some(), case.big_burst)).as_bytes()),
        labels,
        known: vec![],
        checks: outs.len() as u64,
    })
}

pub fn run(tier: Tier, seed: u64, replay: Option<&std::path::Path>) -> i32 {
    super::simple_run(
        "C14",
        tier,
        seed,
        replay,
        (2400, 30000),
        60,
        strategy,
        run_case,
        "a recorder handler (returns {seen: frame id, topic, n: counter kept in $env}) registered in the zero or a registered context with resume head / tail / after a generated frame of the history, over a generated pre-history (frames of its own and of another context, topics that look like its own outputs and registration traffic, optionally a complete earlier lifecycle of the same name with outputs, optionally a second handler answering the same triggers), optional busy sleep per trigger and optional pulse; then bursts of trigger frames from 1..3 concurrent writer threads into its own and another context (ephemeral ones for tail), in about one case in nine additionally 130..320 frames (all must be processed: far past the 100-slot delivery buffer) or 500..650 frames (the handler's own outputs queue up behind them, so the 1024+100 buffered frames may be overrun: then it must have processed a gap-free prefix and must announce the stop with <name>.unregistered carrying an error), then a final frame it must answer. Oracle: its outputs carry n = 1,2,3,... without gap or repeat; the frames it was invoked for equal, in order, the frames of its context after the resume point minus its own outputs minus registration traffic of its name up to its own registration; exactly one threshold (none for tail), not before the last historical frame; pulses only when asked. Non-trivial = >= 3 burst frames while busy, or resume from history over an earlier lifecycle's outputs. Distinct by parameter hash.",
        vec![
            "triggers are appended only after h.registered has become visible".to_string(),
            "ephemeral triggers are generated for tail handlers only (see the recorded C03 finding)".to_string(),
        ],
        2,
    )
}
