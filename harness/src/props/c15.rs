//! C15: handler output is stamped, scoped, ordered and all-or-nothing per call.

use std::time::{Duration, Instant};

use proptest::prelude::*;
use proptest::strategy::BoxedStrategy;
use serde::{Deserialize, Serialize};
use serde_json::json;

use crate::hist::infra;
use crate::model::*;
use crate::nu::*;
use crate::runner::*;
use crate::wire::*;

#[derive(Clone, Debug, PartialEq, Serialize, Deserialize)]
pub enum Val {
    Nothing,
    Str(String),
    Int(i64),
    /// quarters, so that the value is exactly representable
    Float(i16),
    /// a float without fractional part (`2.0`): still a float on the way out
    WholeFloat(i8),
    Bool(bool),
    List(Vec<i64>),
    Record(Vec<(String, i64)>),
    Binary(#[serde(with = "hex_ser")] Vec<u8>),
}

impl Val {
    pub fn nu(&self) -> String {
        match self {
            Val::Nothing => "null".into(),
            Val::Str(s) => nu_str(s),
            Val::Int(i) => format!("{i}"),
            Val::Float(q) => format!("{:?}", *q as f64 / 4.0 + 0.125),
            Val::WholeFloat(w) => format!("{:?}", *w as f64),
            Val::Bool(b) => format!("{b}"),
            Val::List(v) => format!("[{}]", v.iter().map(|x| x.to_string()).collect::<Vec<_>>().join(" ")),
            Val::Record(kv) => format!(
                "{{{}}}",
                kv.iter().map(|(k, v)| format!("{}: {v}", nu_str(k))).collect::<Vec<_>>().join(", ")
            ),
            Val::Binary(b) => format!("0x[{}]", b.iter().map(|x| format!("{x:02x}")).collect::<Vec<_>>().join(" ")),
        }
    }
    /// the JSON value xs renders a returned nu value as
    pub fn json(&self) -> serde_json::Value {
        match self {
            Val::Nothing | Val::Binary(_) => serde_json::Value::Null,
            Val::Str(s) => json!(s),
            Val::Int(i) => json!(i),
            Val::Float(q) => json!(*q as f64 / 4.0 + 0.125),
            Val::WholeFloat(w) => json!(*w as f64),
            Val::Bool(b) => json!(b),
            Val::List(v) => json!(v),
            Val::Record(kv) => {
                let mut m = serde_json::Map::new();
                for (k, v) in kv {
                    m.insert(k.clone(), json!(v));
                }
                serde_json::Value::Object(m)
            }
        }
    }
    /// the bytes `.append` stores for a piped-in value (string, binary, record)
    pub fn piped_bytes(&self) -> Option<Vec<u8>> {
        match self {
            Val::Str(s) => Some(s.as_bytes().to_vec()),
            Val::Binary(b) => Some(b.clone()),
            Val::Record(_) => Some(serde_json::to_string(&self.json()).unwrap().into_bytes()),
            Val::Nothing => None,
            _ => None,
        }
    }
}

#[derive(Clone, Debug, Serialize, Deserialize)]
pub struct AppendStmt {
    pub topic: String,
    pub input: Val,
    pub meta: Option<Vec<(String, Val)>>,
    pub ttl: Option<WTtl>,
    /// `--context <id>` naming context number k (0 = zero context, 1.. = registered)
    pub context: Option<u8>,
    /// the piped-in value is the trigger's own content read back through `.cas $frame.hash`
    /// (nothing when the trigger has no content) instead of `input`
    #[serde(default)]
    pub echo: bool,
}

#[derive(Clone, Debug, PartialEq, Serialize, Deserialize)]
pub enum FailAt {
    No,
    /// before the i-th explicit append (i == number of appends: after the last one)
    Before(u8),
}

#[derive(Clone, Debug, Serialize, Deserialize)]
pub struct C15Case {
    /// context the handler is registered in: 0 = zero, 1..2 registered
    pub handler_ctx: u8,
    pub appends: Vec<AppendStmt>,
    pub fail: FailAt,
    /// how the closure fails: false = `error make`, true = a built-in store command given a
    /// malformed argument (`.cat --last-id "not-an-id"`)
    #[serde(default)]
    pub fail_in_builtin: bool,
    /// which built-in failure: 0 = `.cat --last-id "not-an-id"`, 1 = a list stream piped into `.append`
    #[serde(default)]
    pub builtin_kind: u8,
    /// the closure returns the frame it was given (`$frame`) instead of `ret`; triggers with meta
    /// then also carry a `handler_id` of somebody else, as frames emitted by another handler do
    #[serde(default)]
    pub ret_frame: bool,
    pub ret: Val,
    pub suffix: Option<String>,
    pub ret_ttl: Option<WTtl>,
    /// triggers: (content kind: 0 none, 1 text, 2 bytes that are not UTF-8, 3 multi-byte text,
    /// 4 20 000 patterned bytes; with meta)
    pub triggers: Vec<(u8, bool)>,
}

fn val_any() -> BoxedStrategy<Val> {
    prop_oneof![
        2 => Just(Val::Nothing),
        4 => "[a-z0-9 é]{0,8}".prop_map(Val::Str),
        2 => (-1000i64..1000).prop_map(Val::Int),
        1 => (-40i16..40).prop_map(Val::Float),
        1 => (-9i8..9).prop_map(Val::WholeFloat),
        1 => any::<bool>().prop_map(Val::Bool),
        1 => proptest::collection::vec(-5i64..5, 0..4).prop_map(Val::List),
        2 => proptest::collection::vec(("[a-d]{1,2}", 0i64..9), 0..3).prop_map(|kv| {
            let mut out: Vec<(String, i64)> = vec![];
            for (k, v) in kv {
                if !out.iter().any(|(k2, _)| *k2 == k) {
                    out.push((k, v));
                }
            }
            Val::Record(out)
        }),
        1 => proptest::collection::vec(any::<u8>(), 1..6).prop_map(Val::Binary),
    ]
    .boxed()
}

fn val_pipeable() -> BoxedStrategy<Val> {
    val_any()
        .prop_filter("string, binary, record or nothing", |v| {
            matches!(v, Val::Str(_) | Val::Binary(_) | Val::Record(_) | Val::Nothing)
        })
        .boxed()
}

fn meta_kv() -> BoxedStrategy<Vec<(String, Val)>> {
    proptest::collection::vec(
        (
            prop_oneof![3 => "[a-c]{1,2}", 2 => proptest::sample::select(vec!["handler_id", "frame_id"]).prop_map(|s| s.to_string())],
            prop_oneof![(-9i64..9).prop_map(Val::Int), "[a-z]{0,4}".prop_map(Val::Str), any::<bool>().prop_map(Val::Bool)],
        ),
        0..3,
    )
    .prop_map(|kv| {
        let mut out: Vec<(String, Val)> = vec![];
        for (k, v) in kv {
            if !out.iter().any(|(k2, _)| *k2 == k) {
                out.push((k, v));
            }
        }
        out
    })
    .boxed()
}

pub fn strategy() -> BoxedStrategy<C15Case> {
    let stmt = (
        proptest::sample::select(vec!["out1", "out2", "o.x", "trig.echo", "h.out", "out1", "out2", "xs.context"]).prop_map(|s| s.to_string()),
        val_pipeable(),
        proptest::option::weighted(0.5, meta_kv()),
        prop_oneof![
            4 => Just(None),
            1 => Just(Some(WTtl::Forever)),
            1 => Just(Some(WTtl::Ephemeral)),
            1 => Just(Some(WTtl::Time(60_000))),
            1 => (1u32..3).prop_map(|k| Some(WTtl::Head(k))),
        ],
        proptest::option::weighted(0.3, 0u8..3),
        proptest::bool::weighted(0.25),
    )
        .prop_map(|(topic, input, meta, ttl, context, echo)| AppendStmt {
            topic,
            input,
            meta,
            ttl,
            context,
            echo,
        });
    (
        0u8..3,
        proptest::collection::vec(stmt, 0..=4),
        (prop_oneof![3 => Just(FailAt::No), 2 => (0u8..5).prop_map(FailAt::Before)], proptest::bool::weighted(0.3), 0u8..2),
        val_any(),
        proptest::option::weighted(0.4, proptest::sample::select(vec![".done", ".x", "-r", ".out2"]).prop_map(|s| s.to_string())),
        prop_oneof![
            3 => Just(None),
            1 => Just(Some(WTtl::Ephemeral)),
            1 => (1u32..3).prop_map(|k| Some(WTtl::Head(k))),
            1 => Just(Some(WTtl::Time(60_000))),
            1 => Just(Some(WTtl::Forever)),
        ],
        proptest::collection::vec((0u8..6, any::<bool>()), 1..=3),
        proptest::bool::weighted(0.12),
    )
        .prop_map(|(handler_ctx, appends, (fail, fail_in_builtin, builtin_kind), ret, suffix, ret_ttl, triggers, ret_frame)| C15Case {
            handler_ctx,
            appends,
            fail,
            fail_in_builtin,
            builtin_kind,
            ret_frame,
            ret,
            suffix,
            ret_ttl,
            triggers,
        })
        .boxed()
}

pub fn render(case: &C15Case, ctxs: &[u128]) -> String {
    let mut s = String::from("{\n");
    if case.suffix.is_some() || case.ret_ttl.is_some() {
        s.push_str("  return_options: {\n");
        if let Some(x) = &case.suffix {
            s.push_str(&format!("    suffix: {}\n", nu_str(x)));
        }
        if let Some(t) = &case.ret_ttl {
            s.push_str(&format!("    ttl: {}\n", nu_str(&t.spelling())));
        }
        s.push_str("  }\n");
    }
    s.push_str("  run: {|frame|\n");
    s.push_str("    if $frame.topic == \"fin\" { return \"fin\" }\n");
    s.push_str("    if $frame.topic != \"trig\" { return }\n");
    let fail_stmt = if case.fail_in_builtin && case.builtin_kind % 2 == 1 {
        "    [1 2] | each {|x| $x} | .append \"streamed\"\n"
    } else if case.fail_in_builtin {
        "    .cat --last-id \"not-an-id\" | ignore\n"
    } else {
        "    error make {msg: \"boom\"}\n"
    };
    let fail_pos = match case.fail {
        FailAt::No => None,
        FailAt::Before(i) => Some((i as usize).min(case.appends.len())),
    };
    for (i, a) in case.appends.iter().enumerate() {
        if fail_pos == Some(i) {
            s.push_str(fail_stmt);
        }
        let input = if a.echo {
            "(if ($frame.hash? != null) { .cas $frame.hash } else { null })".to_string()
        } else {
            a.input.nu()
        };
        let mut line = format!("    {} | .append {}", input, nu_str(&a.topic));
        if let Some(m) = &a.meta {
            line.push_str(&format!(
                " --meta {{{}}}",
                m.iter().map(|(k, v)| format!("{}: {}", nu_str(k), v.nu())).collect::<Vec<_>>().join(", ")
            ));
        }
        if let Some(t) = &a.ttl {
            line.push_str(&format!(" --ttl {}", nu_str(&t.spelling())));
        }
        if let Some(c) = a.context {
            line.push_str(&format!(" --context {}", nu_str(&id_str(ctxs[c as usize % ctxs.len()]))));
        }
        s.push_str(&line);
        s.push('\n');
    }
    if fail_pos == Some(case.appends.len()) {
        s.push_str(fail_stmt);
    }
    if case.ret_frame {
        s.push_str("    $frame\n");
    } else {
        s.push_str(&format!("    {}\n", case.ret.nu()));
    }
    s.push_str("  }\n}\n");
    s
}

fn out(msg: String) -> Fail {
    Fail::new(Class::Field, msg)
}

pub fn run_case(case: &C15Case) -> Result<CaseInfo, Fail> {
    let mut nu = Nu::start(true, false, false)?;
    let r = run_in(case, &mut nu);
    nu.finish();
    r
}

fn run_in(case: &C15Case, nu: &mut Nu) -> Result<CaseInfo, Fail> {
    let mut ctxs = vec![ZERO];
    for _ in 0..2 {
        ctxs.push(nu.register_ctx()?);
    }
    let hctx = ctxs[case.handler_ctx as usize % 3];
    let script = render(case, &ctxs);
    let reg = nu.append("h.register", hctx, Some(script.as_bytes()), None)?;
    let (_, ok) = nu.wait(Duration::from_secs(20), |fr| {
        fr.iter().any(|w| (w.topic == "h.registered" || w.topic == "h.unregistered") && meta_of(w, "handler_id").as_deref() == Some(&reg.id))
    })?;
    if !ok {
        return Err(Fail::new(Class::Follow, format!("handler was neither registered nor refused within 20 s; script:\n{script}")));
    }
    if nu.frames()?.iter().any(|w| w.topic == "h.unregistered") {
        return Err(out(format!("a well-formed handler script was refused: {:?}\n{script}", nu.frames()?.iter().find(|w| w.topic == "h.unregistered"))));
    }
    let mut triggers = Vec::new();
    let mut trigger_bytes: Vec<Option<Vec<u8>>> = Vec::new();
    for (i, (content, meta)) in case.triggers.iter().enumerate() {
        let c: Option<Vec<u8>> = match content % 6 {
            // text that begins with a byte-order mark: content is bytes, nothing is trimmed
            5 => Some([&[0xEF, 0xBB, 0xBF][..], format!("{{\"bom\": {i}}}").as_bytes()].concat()),
            0 => None,
            1 => Some(format!("trigger-{i}").into_bytes()),
            2 => Some(vec![0xff, 0x00, 0xfe, i as u8, b'\n', 0xc3]),
            3 => Some(format!("tr\u{e9}\u{2713}-{i}").into_bytes()),
            _ => Some((0..20_000u32).map(|k| (k.wrapping_mul(31).wrapping_add(i as u32) % 251) as u8).collect()),
        };
        trigger_bytes.push(c.clone());
        triggers.push(nu.append(
            "trig",
            hctx,
            c.as_deref(),
            if *meta && case.ret_frame {
                Some(MetaVal::O(vec![("n".into(), MetaVal::I(i as i64)), ("handler_id".into(), MetaVal::S("03gy0000000000000000other".into()))]))
            } else if *meta {
                Some(MetaVal::O(vec![("n".into(), MetaVal::I(i as i64))]))
            } else {
                None
            },
        )?);
    }
    let fin = nu.append("fin", hctx, None, None)?;
    let will_fail = case.fail != FailAt::No;
    let (_, done) = nu.wait(Duration::from_secs(20), |fr| {
        fr.iter().any(|w| {
            (meta_of(w, "frame_id").as_deref() == Some(&fin.id) && meta_of(w, "handler_id").as_deref() == Some(&reg.id))
                || (w.topic == "h.unregistered" && meta_of(w, "handler_id").as_deref() == Some(&reg.id))
        })
    })?;
    if !done {
        return Err(Fail::new(
            Class::Follow,
            format!("the handler neither answered the last frame of its context nor unregistered within 20 s; script:\n{script}"),
        ));
    }
    if will_fail {
        // let anything a wrongly surviving handler would still emit come out
        std::thread::sleep(Duration::from_millis(30));
    }
    let frames = nu.frames()?;
    let mut checks = 0u64;
    let suffix = case.suffix.clone().unwrap_or(".out".into());
    let stamped = |t: &WFrame| -> Vec<&WFrame> {
        frames
            .iter()
            .filter(|w| meta_of(w, "frame_id").as_deref() == Some(&t.id) && meta_of(w, "handler_id").as_deref() == Some(&reg.id))
            .collect()
    };
    for (ti, t) in triggers.iter().enumerate() {
        let got = stamped(t);
        checks += 1;
        if will_fail {
            if ti == 0 {
                // the failing call: nothing but one `.unregistered` carrying the error
                if got.len() != 1 || got[0].topic != "h.unregistered" || meta_of(got[0], "error").is_none() {
                    return Err(out(format!(
                        "the closure failed on trigger {} but the frames stamped with it are {:?} (expected exactly one h.unregistered with the error); script:\n{script}",
                        t.id,
                        got.iter().map(|w| (&w.topic, &w.meta)).collect::<Vec<_>>()
                    )));
                }
                if got[0].ctx128() != hctx {
                    return Err(out(format!("h.unregistered landed in context {} instead of the handler's", got[0].ctx)));
                }
            } else if !got.is_empty() {
                return Err(out(format!(
                    "the handler was unregistered after its closure failed, yet trigger {} produced {:?}",
                    t.id,
                    got.iter().map(|w| &w.topic).collect::<Vec<_>>()
                )));
            }
            continue;
        }
        // successful call: explicit appends in call order, then the return frame
        let mut want: Vec<(String, Option<Vec<u8>>, Option<serde_json::Value>, Option<WTtl>, serde_json::Map<String, serde_json::Value>)> = vec![];
        for a in &case.appends {
            // an `xs.context` frame is only accepted in the zero context: from a handler of another
            // context the store refuses it (its output is forced into its own context) - that one
            // frame is missing, the rest of the invocation's output is not
            if a.topic == "xs.context" && hctx != ZERO {
                continue;
            }
            let mut meta = serde_json::Map::new();
            if let Some(m) = &a.meta {
                for (k, v) in m {
                    meta.insert(k.clone(), v.json());
                }
            }
            let bytes = if a.echo { trigger_bytes[ti].clone() } else { a.input.piped_bytes() };
            // (a registration is kept forever whatever ttl the script asked for)
            let ttl = if a.topic == "xs.context" { Some(WTtl::Forever) } else { a.ttl.clone() };
            want.push((a.topic.clone(), bytes, None, ttl, meta));
        }
        if case.ret_frame {
            // the frame as the closure was handed it, rendered as a record
            let mut rec = serde_json::Map::new();
            rec.insert("id".into(), json!(t.id));
            rec.insert("topic".into(), json!(t.topic));
            rec.insert("context_id".into(), json!(t.ctx));
            if let Some(h) = &t.hash {
                rec.insert("hash".into(), json!(h));
            }
            if let Some(m) = t.meta_json() {
                rec.insert("meta".into(), m);
            }
            want.push((format!("h{suffix}"), None, Some(serde_json::Value::Object(rec)), case.ret_ttl.clone(), serde_json::Map::new()));
        } else if case.ret != Val::Nothing {
            want.push((format!("h{suffix}"), None, Some(case.ret.json()), case.ret_ttl.clone(), serde_json::Map::new()));
        }
        if got.len() != want.len() {
            return Err(out(format!(
                "trigger {} produced {} stamped frames {:?}, the script makes {} ({:?}); script:\n{script}",
                t.id,
                got.len(),
                got.iter().map(|w| &w.topic).collect::<Vec<_>>(),
                want.len(),
                want.iter().map(|w| &w.0).collect::<Vec<_>>()
            )));
        }
        for (g, (topic, bytes, jsonv, ttl, user_meta)) in got.iter().zip(want.iter()) {
            if g.topic != *topic {
                return Err(out(format!(
                    "trigger {}: output order/topics {:?}, expected {:?}; script:\n{script}",
                    t.id,
                    got.iter().map(|w| &w.topic).collect::<Vec<_>>(),
                    want.iter().map(|w| &w.0).collect::<Vec<_>>()
                )));
            }
            if g.ctx128() != hctx {
                return Err(Fail::new(
                    Class::ScopeContext,
                    format!("handler output {} ({}) landed in context {} instead of the handler's context {}; script:\n{script}", g.id, g.topic, g.ctx, id_str(hctx)),
                ));
            }
            if g.ttl != *ttl {
                return Err(out(format!("handler output {} has ttl {:?}, the script asked for {:?}; script:\n{script}", g.topic, g.ttl, ttl)));
            }
            // meta: user keys, with handler_id / frame_id stamped over them
            let m = g.meta_json().and_then(|m| m.as_object().cloned()).unwrap_or_default();
            let mut want_meta = user_meta.clone();
            want_meta.insert("handler_id".into(), json!(reg.id));
            want_meta.insert("frame_id".into(), json!(t.id));
            let a: std::collections::BTreeMap<_, _> = m.iter().collect();
            let b: std::collections::BTreeMap<_, _> = want_meta.iter().collect();
            if a != b {
                return Err(out(format!("handler output {} carries meta {:?}, expected {:?}; script:\n{script}", g.topic, m, want_meta)));
            }
            // content
            match (&g.hash, bytes, jsonv) {
                (None, None, None) => {}
                (Some(h), Some(b), _) => {
                    let c = nu.content(h)?;
                    if c != *b {
                        let show = |x: &[u8]| format!("{} bytes {:?}", x.len(), String::from_utf8_lossy(&x[..x.len().min(40)]));
                        return Err(Fail::new(Class::Cas, format!("content of {} is {}, the script piped in {}; script:\n{script}", g.topic, show(&c), show(b))));
                    }
                    if sha256_integrity(&c) != *h {
                        return Err(Fail::new(Class::Cas, format!("content of {} does not hash to its frame's hash", g.topic)));
                    }
                }
                (Some(h), None, Some(j)) => {
                    let c = nu.content(h)?;
                    let v: serde_json::Value = serde_json::from_slice(&c)
                        .map_err(|e| Fail::new(Class::Cas, format!("return frame content is not JSON ({e}): {:?}", String::from_utf8_lossy(&c))))?;
                    if v != *j {
                        return Err(Fail::new(Class::Cas, format!("return frame content is {v}, the closure returned {j}; script:\n{script}")));
                    }
                    if sha256_integrity(&c) != *h {
                        return Err(Fail::new(Class::Cas, "return frame content does not hash to its frame's hash".to_string()));
                    }
                }
                other => {
                    return Err(out(format!("handler output {}: hash/content mismatch {:?}; script:\n{script}", g.topic, (other.0, other.1.is_some(), other.2.is_some()))));
                }
            }
        }
    }
    let panics = nu.panics()?;
    if let Some(p) = panics.first() {
        return Err(Fail::new(Class::Panic, format!("xs panicked: {p}; script:\n{script}")));
    }
    let colliding = case
        .appends
        .iter()
        .any(|a| a.meta.as_ref().map(|m| m.iter().any(|(k, _)| k == "handler_id" || k == "frame_id")).unwrap_or(false));
    let fail_after_buffered = matches!(case.fail, FailAt::Before(i) if i >= 1 && !case.appends.is_empty());
    let mut labels = vec![];
    for (on, name) in [
        (will_fail, "closure-fails"),
        (!will_fail && hctx != ZERO && case.appends.iter().any(|a| a.topic == "xs.context"), "one-output-frame-refused-by-the-store"),
        (case.ret_frame && !will_fail, "returns-the-frame-it-was-given"),
        (will_fail && case.fail_in_builtin, "closure-fails-inside-builtin-command"),
        (fail_after_buffered, "failure-after-buffered-append"),
        (colliding, "user-meta-collides-with-stamps"),
        (case.handler_ctx != 0, "handler-in-registered-context"),
        (case.appends.iter().any(|a| a.context.is_some()), "append-names-other-context"),
        (case.suffix.is_some() || case.ret_ttl.is_some(), "return-options"),
        (case.appends.iter().any(|a| a.ttl == Some(WTtl::Ephemeral)) || case.ret_ttl == Some(WTtl::Ephemeral), "ephemeral-output"),
        (
            !will_fail && case.appends.iter().any(|a| a.echo) && case.triggers.iter().any(|(c, _)| c % 6 != 0),
            "trigger-content-echoed-through-.cas",
        ),
        (
            !will_fail && case.appends.iter().any(|a| a.echo) && case.triggers.iter().any(|(c, _)| c % 6 == 2),
            "non-utf8-content-echoed-through-.cas",
        ),
    ] {
        if on {
            labels.push(name.to_string());
        }
    }
    Ok(CaseInfo {
        nontrivial: (case.appends.len() >= 2 && case.ret != Val::Nothing && !will_fail) || fail_after_buffered || colliding,
        shape: hash64(script.as_bytes()) ^ hash64(format!("{:?}{}", case.triggers, case.handler_ctx).as_bytes()),
        labels,
        known: vec![],
        checks,
    })
}

pub fn run(tier: Tier, seed: u64, replay: Option<&std::path::Path>) -> i32 {
    super::simple_run(
        "C15",
        tier,
        seed,
        replay,
        (3000, 120000),
        80,
        strategy,
        run_case,
        "handler programs rendered from an AST: 0..4 explicit `.append`s (piped string / binary / record / nothing, --meta with keys that may collide with handler_id/frame_id, --ttl of every kind, --context naming another registered context), optional `error make` before / between / after the appends, return value of every nu type or nothing, optional return_options suffix and ttl, handler registered in the zero or a registered context; 1..3 triggers with and without meta and with content of five kinds (none, text, bytes that are not UTF-8, multi-byte text, 20 000 bytes) which an explicit append may read back through `.cas $frame.hash` and re-append (byte-exact expected), then a `fin` frame the handler must answer. Oracle per trigger: the frames stamped with (handler id, trigger id) are exactly the explicit appends in call order then the return frame on <name><suffix> with the configured TTL; stamps overwrite colliding user keys; all in the handler's context; content in CAS, byte-equal (piped) or JSON-equal (returned); on failure nothing but one <name>.unregistered carrying the error, and nothing for later triggers. Non-trivial = >= 2 explicit appends and a return value, or a failure after >= 1 buffered append, or colliding meta keys. Distinct by script hash.",
        vec![
            "scripts come from templates with generated parameters, not from the nu grammar".to_string(),
            "after an expected failure the absence of further output is observed for 30 ms only".to_string(),
        ],
        1,
    )
}
