//! C16: handler lifecycle — one active instance per (context, name); every stop
//! announced exactly once; `.registered` visible => subscribed.

use std::collections::BTreeMap;
use std::time::Duration;

use proptest::prelude::*;
use proptest::strategy::BoxedStrategy;
use serde::{Deserialize, Serialize};

use crate::hist::must;
use crate::model::*;
use crate::nu::*;
use crate::runner::*;
use crate::wire::*;

#[derive(Clone, Debug, PartialEq, Serialize, Deserialize)]
pub enum RegKind {
    Valid,
    /// closure without parameter
    BadArity,
    ParseError,
    /// configuration script raises at registration time
    ConfigError,
    /// the byte-identical script of the instance currently active under that name and
    /// context (an idempotent re-deploy); a fresh valid script if none is active
    SameAsActive,
    /// a `.register` frame without any content
    NoContent,
    /// closure with two required parameters
    TwoParams,
    /// `resume_from` that is neither head, tail nor an id
    BadResume,
}

#[derive(Clone, Debug, Serialize, Deserialize)]
pub enum Ev {
    Reg {
        name: u8,
        ctx: u8,
        kind: RegKind,
        resume_head: bool,
        /// the `.register` frame is emitted by an installer handler from its closure (it then
        /// carries that handler's `handler_id` / `frame_id` stamps) instead of by the client
        #[serde(default)]
        via_handler: bool,
    },
    Unreg { name: u8, ctx: u8 },
    Boom { name: u8, ctx: u8 },
    /// a frame on which the handler unregisters itself (its closure appends `<name>.unregister`)
    SelfStop { name: u8, ctx: u8 },
    Probe { ctx: u8 },
}

#[derive(Clone, Debug, Serialize, Deserialize)]
pub struct C16Case {
    pub events: Vec<Ev>,
    /// delay (ms) at the handler's subscribe step / before its announce
    pub delay_subscribe_ms: u8,
    pub delay_announce_ms: u8,
}

pub fn strategy() -> BoxedStrategy<C16Case> {
    let ev = prop_oneof![
        6 => (0u8..2, 0u8..2, prop_oneof![6 => Just(RegKind::Valid), 2 => Just(RegKind::SameAsActive), 1 => Just(RegKind::BadArity), 1 => Just(RegKind::ParseError), 1 => Just(RegKind::ConfigError), 1 => Just(RegKind::NoContent), 1 => Just(RegKind::TwoParams), 1 => Just(RegKind::BadResume)], prop_oneof![3 => Just(false), 1 => Just(true)], prop_oneof![4 => Just(false), 1 => Just(true)])
            .prop_map(|(name, ctx, kind, resume_head, via_handler)| Ev::Reg { name, ctx, kind, resume_head, via_handler }),
        2 => (0u8..2, 0u8..2).prop_map(|(name, ctx)| Ev::Unreg { name, ctx }),
        2 => (0u8..2, 0u8..2).prop_map(|(name, ctx)| Ev::Boom { name, ctx }),
        1 => (0u8..2, 0u8..2).prop_map(|(name, ctx)| Ev::SelfStop { name, ctx }),
        4 => (0u8..2).prop_map(|ctx| Ev::Probe { ctx }),
    ];
    (
        proptest::collection::vec(ev, 1..14),
        prop_oneof![3 => Just(0u8), 1 => Just(5u8), 1 => Just(20u8)],
        prop_oneof![4 => Just(0u8), 1 => Just(5u8)],
    )
        .prop_map(|(events, delay_subscribe_ms, delay_announce_ms)| C16Case {
            events,
            delay_subscribe_ms,
            delay_announce_ms,
        })
        .boxed()
}

// one name is a dotted extension of the other: registration traffic of `h.sub` is not `h`'s
const NAMES: &[&str] = &["h", "h.sub"];

fn script(name: &str, version: usize, kind: &RegKind, resume_head: bool) -> String {
    let resume = if resume_head { "resume_from: \"head\"" } else { "" };
    match kind {
        RegKind::Valid | RegKind::SameAsActive => format!(
            r#"{{
  {resume}
  run: {{|frame|
    if $frame.topic == "boom.{name}" {{ error make {{msg: "boom"}} }}
    if $frame.topic == "quit.{name}" {{ null | .append "{name}.unregister"; return }}
    if $frame.topic != "probe" {{ return }}
    "v{version}"
  }}
}}"#
        ),
        RegKind::BadArity => "{run: {|| 42}}".to_string(),
        RegKind::ParseError => "{run: {|frame| let x = }}".to_string(),
        RegKind::ConfigError => "error make {msg: \"config\"}\n{run: {|frame| 1}}".to_string(),
        RegKind::NoContent => String::new(),
        RegKind::TwoParams => "{run: {|frame, state| 42}}".to_string(),
        RegKind::BadResume => "{resume_from: \"yesterday\", run: {|frame| 42}}".to_string(),
    }
}

const BOOT: &str = r#"{
  run: {|frame|
    if ($frame.topic | str starts-with "install.") {
      let n = ($frame.topic | str replace "install." "")
      .cas $frame.hash | .append $"($n).register"
    }
    null
  }
}"#;

fn life(msg: String) -> Fail {
    Fail::new(Class::Follow, msg)
}

pub fn run_case(case: &C16Case) -> Result<CaseInfo, Fail> {
    let mut nu = Nu::start(true, false, false)?;
    let r = run_in(case, &mut nu);
    nu.finish();
    r
}

struct Inst {
    reg: WFrame,
    version: usize,
    valid: bool,
    ctx: u8,
    resume_head: bool,
    /// None = active
    stopped_by_error: Option<bool>,
}

fn run_in(case: &C16Case, nu: &mut Nu) -> Result<CaseInfo, Fail> {
    let mut delays = vec![];
    if case.delay_subscribe_ms > 0 {
        delays.push(("handler.serve.before_read".to_string(), case.delay_subscribe_ms as u64 * 1000));
    }
    if case.delay_announce_ms > 0 {
        delays.push(("handler.spawn.before_announce".to_string(), case.delay_announce_ms as u64 * 1000));
    }
    if !delays.is_empty() {
        must("schedule", nu.exec.call(&crate::exec::Cmd::SetDelays { delays }).map(|_| ()))?;
    }
    let ctxs = [ZERO, nu.register_ctx()?];
    // an installer handler per context: it turns `install.<name>` frames into `<name>.register`
    // frames with the same content, emitted from its closure
    let mut installed_by_handler = false;
    if case.events.iter().any(|e| matches!(e, Ev::Reg { via_handler: true, .. })) {
        for c in ctxs {
            let b = nu.append("boot.register", c, Some(BOOT.as_bytes()), None)?;
            let (_, ok) = nu.wait(Duration::from_secs(30), |fr| {
                fr.iter().any(|w| w.topic == "boot.registered" && meta_of(w, "handler_id").as_deref() == Some(&b.id))
            })?;
            if !ok {
                return Err(life(format!("boot.register {} was not followed by boot.registered within 30 s", b.id)));
            }
        }
    }
    let mut insts: Vec<Inst> = Vec::new();
    // (ctx, name) -> index of the active instance
    let mut active: BTreeMap<(u8, u8), usize> = BTreeMap::new();
    // probe id -> (ctx, instances that must answer, instances that may answer)
    let mut probes: Vec<(WFrame, u8, Vec<usize>, Vec<usize>)> = Vec::new();
    let mut replaced_or_error_then_probe = false;
    let mut had_stop = false;
    let mut identical_redeploy = false;
    let mut self_stopped = false;
    // (context, name) pairs whose failing trigger is in the stream: a handler resuming from
    // head would replay it and stop at once, so such registrations resume from the tail
    let mut boomed: std::collections::BTreeSet<(u8, u8)> = Default::default();
    let t20 = Duration::from_secs(30);

    let mut do_probe = |nu: &mut Nu, ctx: u8, insts: &Vec<Inst>, active: &BTreeMap<(u8, u8), usize>, probes: &mut Vec<(WFrame, u8, Vec<usize>, Vec<usize>)>| -> Check {
        let p = nu.append("probe", ctxs[ctx as usize], None, None)?;
        let want: Vec<usize> = active.iter().filter(|((c, _), _)| *c == ctx).map(|(_, i)| *i).collect();
        let want_ids: Vec<String> = want.iter().map(|i| insts[*i].reg.id.clone()).collect();
        let (_, ok) = nu.wait(t20, |fr| {
            want_ids.iter().all(|h| {
                fr.iter().any(|w| meta_of(w, "frame_id").as_deref() == Some(&p.id) && meta_of(w, "handler_id").as_deref() == Some(h))
            })
        })?;
        if !ok {
            let fr = nu.frames()?;
            let silent: Vec<&String> = want_ids
                .iter()
                .filter(|h| !fr.iter().any(|w| meta_of(w, "frame_id").as_deref() == Some(&p.id) && meta_of(w, "handler_id").as_deref() == Some(h)))
                .collect();
            return Err(life(format!(
                "frame {} was appended to context {ctx} after the handler(s) {silent:?} had announced .registered, but they never processed it (30 s)",
                p.id
            )));
        }
        probes.push((p, ctx, want, vec![]));
        Ok(())
    };

    for ev in &case.events {
        match ev {
            Ev::Reg { name, ctx, kind, resume_head, via_handler } => {
                let n = NAMES[*name as usize];
                let mut version = insts.len() + 1;
                let valid = matches!(kind, RegKind::Valid | RegKind::SameAsActive);
                let mut resume_head = *resume_head && !boomed.contains(&(*ctx, *name));
                if *kind == RegKind::SameAsActive {
                    if let Some(ai) = active.get(&(*ctx, *name)) {
                        version = insts[*ai].version;
                        resume_head = insts[*ai].resume_head;
                        identical_redeploy = true;
                    }
                }
                let resume_head = &resume_head;
                let text = script(n, version, kind, *resume_head);
                let reg = if *via_handler && *kind != RegKind::NoContent {
                    let ins = nu.append(&format!("install.{n}"), ctxs[*ctx as usize], Some(text.as_bytes()), None)?;
                    let topic = format!("{n}.register");
                    let (fr, ok) = nu.wait(t20, |fr| fr.iter().any(|w| w.topic == topic && meta_of(w, "frame_id").as_deref() == Some(&ins.id)))?;
                    if !ok {
                        return Err(life(format!(
                            "the installer handler of context {ctx} was registered, but it never emitted {topic} for frame {} (30 s)",
                            ins.id
                        )));
                    }
                    installed_by_handler = true;
                    fr.into_iter().find(|w| w.topic == topic && meta_of(w, "frame_id").as_deref() == Some(&ins.id)).unwrap()
                } else {
                    nu.append(
                        &format!("{n}.register"),
                        ctxs[*ctx as usize],
                        if *kind == RegKind::NoContent { None } else { Some(text.as_bytes()) },
                        None,
                    )?
                };
                let prev = active.remove(&(*ctx, *name));
                if prev.is_some() {
                    // right behind the replacing frame, before the old instance has reached it: the
                    // old instance must not answer; the new one may (it subscribes at some point)
                    let p = nu.append("probe", ctxs[*ctx as usize], None, None)?;
                    let must: Vec<usize> = active.iter().filter(|((c, _), _)| c == ctx).map(|(_, i)| *i).collect();
                    probes.push((p, *ctx, must, vec![insts.len()]));
                }
                // the previous instance is replaced whatever the new script is worth
                if let Some(pi) = prev {
                    let pid = insts[pi].reg.id.clone();
                    let (_, ok) = nu.wait(t20, |fr| {
                        fr.iter().any(|w| w.topic == format!("{n}.unregistered") && meta_of(w, "handler_id").as_deref() == Some(&pid))
                    })?;
                    if !ok {
                        return Err(life(format!("instance {pid} of {n} was replaced by a new {n}.register but never announced {n}.unregistered")));
                    }
                    insts[pi].stopped_by_error = Some(false);
                    had_stop = true;
                }
                let rid = reg.id.clone();
                let want_topic = if valid { format!("{n}.registered") } else { format!("{n}.unregistered") };
                let (_, ok) = nu.wait(t20, |fr| fr.iter().any(|w| w.topic == want_topic && meta_of(w, "handler_id").as_deref() == Some(&rid)))?;
                if !ok {
                    return Err(life(format!("{n}.register {rid} ({kind:?}) was not followed by {want_topic} within 30 s")));
                }
                insts.push(Inst {
                    reg,
                    version,
                    valid,
                    ctx: *ctx,
                    resume_head: *resume_head,
                    stopped_by_error: if valid { None } else { Some(true) },
                });
                if valid {
                    active.insert((*ctx, *name), insts.len() - 1);
                    // a client that acts the moment it sees `.registered`
                    do_probe(nu, *ctx, &insts, &active, &mut probes)?;
                    if prev.is_some() {
                        replaced_or_error_then_probe = true;
                    }
                } else {
                    had_stop = true;
                }
            }
            Ev::Unreg { name, ctx } => {
                let n = NAMES[*name as usize];
                nu.append(&format!("{n}.unregister"), ctxs[*ctx as usize], None, None)?;
                let stopping = active.remove(&(*ctx, *name));
                if stopping.is_some() {
                    // queued right behind the stop: a stopped instance processes nothing further
                    let p = nu.append("probe", ctxs[*ctx as usize], None, None)?;
                    let must: Vec<usize> = active.iter().filter(|((c, _), _)| c == ctx).map(|(_, i)| *i).collect();
                    probes.push((p, *ctx, must, vec![]));
                }
                if let Some(i) = stopping {
                    let id = insts[i].reg.id.clone();
                    let (_, ok) = nu.wait(t20, |fr| {
                        fr.iter().any(|w| w.topic == format!("{n}.unregistered") && meta_of(w, "handler_id").as_deref() == Some(&id))
                    })?;
                    if !ok {
                        return Err(life(format!("{n}.unregister was not followed by {n}.unregistered of instance {id} within 30 s")));
                    }
                    insts[i].stopped_by_error = Some(false);
                    had_stop = true;
                }
            }
            Ev::Boom { name, ctx } => {
                let n = NAMES[*name as usize];
                nu.append(&format!("boom.{n}"), ctxs[*ctx as usize], None, None)?;
                boomed.insert((*ctx, *name));
                let stopping = active.remove(&(*ctx, *name));
                if stopping.is_some() {
                    let p = nu.append("probe", ctxs[*ctx as usize], None, None)?;
                    let must: Vec<usize> = active.iter().filter(|((c, _), _)| c == ctx).map(|(_, i)| *i).collect();
                    probes.push((p, *ctx, must, vec![]));
                }
                if let Some(i) = stopping {
                    let id = insts[i].reg.id.clone();
                    let (_, ok) = nu.wait(t20, |fr| {
                        fr.iter().any(|w| w.topic == format!("{n}.unregistered") && meta_of(w, "handler_id").as_deref() == Some(&id))
                    })?;
                    if !ok {
                        return Err(life(format!("the closure of {n} instance {id} failed but {n}.unregistered was not announced within 30 s")));
                    }
                    insts[i].stopped_by_error = Some(true);
                    had_stop = true;
                }
            }
            Ev::SelfStop { name, ctx } => {
                let n = NAMES[*name as usize];
                nu.append(&format!("quit.{n}"), ctxs[*ctx as usize], None, None)?;
                // (like a historical failing trigger: an instance resuming from history would meet it again)
                boomed.insert((*ctx, *name));
                if let Some(i) = active.remove(&(*ctx, *name)) {
                    let id = insts[i].reg.id.clone();
                    let (_, ok) = nu.wait(t20, |fr| {
                        fr.iter().any(|w| w.topic == format!("{n}.unregistered") && meta_of(w, "handler_id").as_deref() == Some(&id))
                    })?;
                    if !ok {
                        return Err(life(format!(
                            "instance {id} of {n} appended {n}.unregister from its own closure but never announced {n}.unregistered (30 s): it does not stop"
                        )));
                    }
                    insts[i].stopped_by_error = Some(false);
                    had_stop = true;
                    self_stopped = true;
                    let p = nu.append("probe", ctxs[*ctx as usize], None, None)?;
                    let must: Vec<usize> = active.iter().filter(|((c, _), _)| c == ctx).map(|(_, i)| *i).collect();
                    probes.push((p, *ctx, must, vec![]));
                }
            }
            Ev::Probe { ctx } => {
                do_probe(nu, *ctx, &insts, &active, &mut probes)?;
                if had_stop {
                    replaced_or_error_then_probe = true;
                }
            }
        }
    }
    // a last probe in each context, then let stragglers come out
    for c in 0..2u8 {
        do_probe(nu, c, &insts, &active, &mut probes)?;
    }
    std::thread::sleep(Duration::from_millis(25));
    let frames = nu.frames()?;

    // ---- per instance ----------------------------------------------------------------
    for (i, inst) in insts.iter().enumerate() {
        let id = &inst.reg.id;
        let mine: Vec<&WFrame> = frames.iter().filter(|w| meta_of(w, "handler_id").as_deref() == Some(id)).collect();
        let registered: Vec<&&WFrame> = mine.iter().filter(|w| w.topic.ends_with(".registered")).collect();
        let unregistered: Vec<&&WFrame> = mine.iter().filter(|w| w.topic.ends_with(".unregistered")).collect();
        if registered.len() > 1 || (inst.valid && registered.len() != 1) || (!inst.valid && !registered.is_empty()) {
            return Err(life(format!("instance {id} (#{i}, valid={}) announced .registered {} times", inst.valid, registered.len())));
        }
        match inst.stopped_by_error {
            None => {
                if !unregistered.is_empty() {
                    return Err(life(format!("instance {id} is active but announced .unregistered: {:?}", unregistered[0].meta)));
                }
            }
            Some(by_error) => {
                if unregistered.len() != 1 {
                    return Err(life(format!(
                        "instance {id} (#{i}) stopped but announced .unregistered {} times (exactly one expected)",
                        unregistered.len()
                    )));
                }
                let has_err = meta_of(unregistered[0], "error").is_some();
                if has_err != by_error {
                    return Err(life(format!("instance {id}: .unregistered carries an error: {has_err}, it stopped on an error: {by_error}")));
                }
                if unregistered[0].ctx != inst.reg.ctx {
                    return Err(Fail::new(Class::ScopeContext, format!("instance {id}: .unregistered landed in context {}", unregistered[0].ctx)));
                }
                // a stopped instance processes nothing further
                let stop_id = unregistered[0].id128();
                if let Some(late) = mine.iter().find(|w| w.id128() > stop_id) {
                    return Err(life(format!("instance {id} emitted {} ({}) after its .unregistered", late.topic, late.id)));
                }
            }
        }
    }
    // ---- per probe -----------------------------------------------------------------------
    for (p, ctx, want, may) in &probes {
        let answers: Vec<&WFrame> = frames.iter().filter(|w| meta_of(w, "frame_id").as_deref() == Some(&p.id) && w.topic.ends_with(".out")).collect();
        let mut got: Vec<String> = answers.iter().filter_map(|w| meta_of(w, "handler_id")).collect();
        got.sort();
        let mut exp: Vec<String> = want.iter().map(|i| insts[*i].reg.id.clone()).collect();
        // an instance registered later with resume_from head replays the history of its
        // context, this probe included
        for inst in insts.iter() {
            if inst.valid && inst.resume_head && inst.ctx == *ctx && inst.reg.id128() > p.id128() {
                exp.push(inst.reg.id.clone());
            }
        }
        exp.sort();
        // instances that may or may not have been subscribed yet when the probe was appended
        let may_ids: Vec<String> = may.iter().filter_map(|i| insts.get(*i)).map(|i| i.reg.id.clone()).collect();
        got.retain(|g| exp.contains(g) || !may_ids.contains(g));
        if got != exp {
            return Err(life(format!(
                "probe {} in context {ctx} was answered by instances {got:?}; the active instances of that context were {exp:?}",
                p.id
            )));
        }
        for a in &answers {
            let hid = meta_of(a, "handler_id").unwrap();
            let inst = insts.iter().find(|i| i.reg.id == hid).unwrap();
            let c = nu.content(a.hash.as_ref().unwrap())?;
            if String::from_utf8_lossy(&c) != format!("\"v{}\"", inst.version) {
                return Err(life(format!("instance {hid} answered {:?}, its script says v{}", String::from_utf8_lossy(&c), inst.version)));
            }
        }
    }
    if let Some(p) = nu.panics()?.first() {
        return Err(Fail::new(Class::Panic, format!("xs panicked: {p}")));
    }
    let mut labels = vec![];
    for (on, name) in [
        (case.delay_subscribe_ms > 0, "subscribe-step-delayed"),
        (case.delay_announce_ms > 0, "announce-step-delayed"),
        (had_stop, "some-instance-stopped"),
        (insts.iter().any(|i| !i.valid), "invalid-registration"),
        (identical_redeploy, "re-register-with-identical-script"),
        (self_stopped, "handler-unregisters-itself"),
        (installed_by_handler, "register-emitted-by-a-handler"),
    ] {
        if on {
            labels.push(name.to_string());
        }
    }
    Ok(CaseInfo {
        nontrivial: replaced_or_error_then_probe || case.delay_subscribe_ms > 0,
        shape: hash64(format!("{:?}", case).as_bytes()),
        labels,
        known: vec![],
        checks: (insts.len() + probes.len()) as u64,
    })
}

pub fn run(tier: Tier, seed: u64, replay: Option<&std::path::Path>) -> i32 {
    super::simple_run(
        "C16",
        tier,
        seed,
        replay,
        (2000, 50000),
        25,
        strategy,
        run_case,
        "event sequences (1..13) over two handler names and two contexts: register (valid, the byte-identical script of the active instance, closure without parameter, parse error, configuration script that raises, no content at all; resume tail or head; appended by the client or emitted by an installer handler from its closure), re-register, unregister, a trigger that makes the closure fail, probes; after every valid registration a probe is appended the moment `<name>.registered` becomes visible; the handler's subscribe and announce steps are optionally delayed by 5 or 20 ms through the verif sync points. Oracle: every probe appended after `.registered` is processed (8 s bound); per instance at most one `.registered`, exactly one `.unregistered` with its id (carrying an error iff it stopped on one) for every stop reason and none while active, nothing stamped with it after its `.unregistered`; every probe is answered by exactly the active instances of its context, with the content of their own script version. Non-trivial = a replacement or an error stop followed by a probe, or a delayed subscribe step. Distinct by case hash.",
        vec!["absence of answers from stopped instances is observed until 25 ms after the last probe was answered".to_string()],
        2,
    )
}
