//! C17: a restart restores exactly the active handlers, generators and commands,
//! per (context, name), with their original ids; nothing stopped, replaced or
//! failed comes back; historical triggers and calls are not re-executed.

use std::collections::BTreeMap;
use std::time::Duration;

use proptest::prelude::*;
use proptest::strategy::BoxedStrategy;
use serde::{Deserialize, Serialize};

use crate::model::*;
use crate::nu::*;
use crate::runner::*;
use crate::wire::*;

#[derive(Clone, Debug, Serialize, Deserialize)]
pub enum Ev {
    HReg { name: u8, ctx: u8, valid: bool },
    HUnreg { name: u8, ctx: u8 },
    /// `<name>.unregister` appended in the NEXT context, carrying in its meta the handler id of
    /// the instance active under that name in `ctx`: it concerns the context it is in, nothing else
    HUnregElsewhere { name: u8, ctx: u8 },
    HBoom { name: u8, ctx: u8 },
    GSpawn { name: u8, ctx: u8 },
    GSpawnBad { name: u8, ctx: u8 },
    CDef {
        name: u8,
        ctx: u8,
        valid: bool,
        /// re-define with the byte-identical script text of the current definition of that name
        /// and context (a new frame, hence a new command id)
        #[serde(default)]
        same_text: bool,
    },
    /// `fail`: the call asks the closure to raise (its frame carries meta {fail: true}): a call
    /// that ended in `.error` says nothing about the definition
    CCall {
        name: u8,
        ctx: u8,
        #[serde(default)]
        fail: bool,
    },
    Probe,
    Restart,
    /// the server dies right after a (valid) `.register` reached the store: the registration -
    /// possibly the replacement of an instance that never got to announce its stop - is only
    /// found in history by the next server
    RestartAfterRegister { name: u8, ctx: u8 },
    /// the server dies, and `<name>.unregister` naming the active instance (meta.handler_id) is
    /// appended before the next one starts: that instance must not come back
    RestartAfterUnregister { name: u8, ctx: u8 },
}

#[derive(Clone, Debug, Serialize, Deserialize)]
pub struct C17Case {
    pub events: Vec<Ev>,
}

pub fn strategy() -> BoxedStrategy<C17Case> {
    let nc = || (0u8..2, 0u8..3);
    let ev = prop_oneof![
        5 => (nc(), prop_oneof![6 => Just(true), 1 => Just(false)]).prop_map(|((name, ctx), valid)| Ev::HReg { name, ctx, valid }),
        2 => nc().prop_map(|(name, ctx)| Ev::HUnreg { name, ctx }),
        1 => nc().prop_map(|(name, ctx)| Ev::HUnregElsewhere { name, ctx }),
        1 => nc().prop_map(|(name, ctx)| Ev::HBoom { name, ctx }),
        3 => nc().prop_map(|(name, ctx)| Ev::GSpawn { name, ctx }),
        1 => nc().prop_map(|(name, ctx)| Ev::GSpawnBad { name, ctx }),
        4 => (nc(), prop_oneof![5 => Just(true), 1 => Just(false)], proptest::bool::weighted(0.3)).prop_map(|((name, ctx), valid, same_text)| Ev::CDef { name, ctx, valid, same_text }),
        3 => (nc(), proptest::bool::weighted(0.4)).prop_map(|((name, ctx), fail)| Ev::CCall { name, ctx, fail }),
        1 => Just(Ev::Probe),
        2 => Just(Ev::Restart),
        1 => nc().prop_map(|(name, ctx)| Ev::RestartAfterRegister { name, ctx }),
        1 => nc().prop_map(|(name, ctx)| Ev::RestartAfterUnregister { name, ctx }),
    ];
    proptest::collection::vec(ev, 2..12)
        .prop_map(|mut events| {
            // at most two restarts inside, and always one at the end
            let mut seen = 0;
            events.retain(|e| {
                if matches!(e, Ev::Restart | Ev::RestartAfterRegister { .. } | Ev::RestartAfterUnregister { .. }) {
                    seen += 1;
                    seen <= 2
                } else {
                    true
                }
            });
            events.push(Ev::Restart);
            C17Case { events }
        })
        .boxed()
}

// (dotted names: start-up replays must take the name apart at the right dot)
const HN: &[&str] = &["h", "k.x.y"];
const GN: &[&str] = &["g", "q.r"];
const CN: &[&str] = &["c", "d.e"];

fn h_script(name: &str, version: usize, valid: bool) -> String {
    if !valid {
        return "{run: {|| 1}}".into();
    }
    format!(
        r#"{{
  run: {{|frame|
    if $frame.topic == "boom.{name}" {{ error make {{msg: "boom"}} }}
    if $frame.topic != "probe" {{ return }}
    "hv{version}"
  }}
}}"#
    )
}

fn c_script(version: usize, valid: bool) -> String {
    if !valid {
        return "{run: {|frame| let x = }}".into();
    }
    format!("{{run: {{|frame| if ($frame.meta?.fail? | default false) {{ error make {{msg: \"asked to fail\"}} }}; \"cv{version}\"}}}}")
}

fn rs(msg: String) -> Fail {
    Fail::new(Class::Follow, msg)
}

pub fn run_case(case: &C17Case) -> Result<CaseInfo, Fail> {
    let mut nu = Nu::start(true, true, true)?;
    let r = run_in(case, &mut nu);
    nu.finish();
    r
}

#[derive(Default)]
struct ModelState {
    /// (ctx, name) -> (register frame id, version)
    handlers: BTreeMap<(u8, u8), (String, usize)>,
    /// (ctx, name) -> Some(spawn id) if the latest spawn succeeded, None if it was refused
    generators: BTreeMap<(u8, u8), Option<String>>,
    /// (ctx, name) -> (define frame id, version)
    commands: BTreeMap<(u8, u8), (String, usize)>,
    /// generator instances running in the current server process
    running: std::collections::BTreeSet<(u8, u8)>,
}

struct Run<'a> {
    nu: &'a mut Nu,
    ctxs: Vec<u128>,
    m: ModelState,
    version: usize,
    /// ids of historical probes / calls and how many stamped frames each had before a restart
    past_triggers: Vec<String>,
    checks: u64,
    sentinel_n: usize,
}

const T: Duration = Duration::from_secs(40);

impl<'a> Run<'a> {
    fn wait(&mut self, what: &str, pred: impl FnMut(&[WFrame]) -> bool) -> Result<Vec<WFrame>, Fail> {
        let (fr, ok) = self.nu.wait(T, pred)?;
        if !ok {
            return Err(rs(format!("{what} (not within 15 s)")));
        }
        Ok(fr)
    }

    /// After a (re)start: make sure every loop has finished replaying, by live sentinels.
    fn settle_loops(&mut self) -> Check {
        self.sentinel_n += 1;
        let n = self.sentinel_n;
        self.nu.ready_commands()?;
        let z = self.nu.append(&format!("zz{n}.register"), ZERO, Some(b"{run: {|frame| null}}"), None)?;
        let zid = z.id.clone();
        self.wait("the handlers loop did not start a freshly registered handler", |fr| {
            fr.iter().any(|w| w.topic == format!("zz{n}.registered") && meta_of(w, "handler_id").as_deref() == Some(&zid))
        })?;
        let g = self.nu.append(
            &format!("zz{n}.spawn"),
            ZERO,
            Some(b"each {|x| $x}"),
            Some(MetaVal::O(vec![("duplex".into(), MetaVal::Bool(true))])),
        )?;
        let gid = g.id.clone();
        self.wait("the generators loop did not start a freshly spawned generator", |fr| {
            fr.iter().any(|w| w.topic == format!("zz{n}.start") && meta_of(w, "source_id").as_deref() == Some(&gid))
        })?;
        Ok(())
    }

    /// Probe every context and call every command; compare who answers with the model.
    fn probe_all(&mut self, when: &str, after_id: u128) -> Check {
        // handlers
        for c in 0..3u8 {
            let p = self.nu.append("probe", self.ctxs[c as usize], None, None)?;
            let want: Vec<(String, usize)> = self.m.handlers.iter().filter(|((cc, _), _)| *cc == c).map(|(_, v)| v.clone()).collect();
            let want_ids: Vec<String> = want.iter().map(|w| w.0.clone()).collect();
            let pid = p.id.clone();
            let (_, ok) = self.nu.wait(T, |fr| {
                want_ids.iter().all(|h| fr.iter().any(|w| meta_of(w, "frame_id").as_deref() == Some(&pid) && meta_of(w, "handler_id").as_deref() == Some(h)))
            })?;
            std::thread::sleep(Duration::from_millis(15));
            let fr = self.nu.frames()?;
            let mut got: Vec<String> = fr
                .iter()
                .filter(|w| meta_of(w, "frame_id").as_deref() == Some(&p.id) && w.topic.ends_with(".out"))
                .filter_map(|w| meta_of(w, "handler_id"))
                .collect();
            got.sort();
            let mut exp = want_ids.clone();
            exp.sort();
            self.checks += 1;
            if !ok || got != exp {
                return Err(rs(format!(
                    "{when}: a frame appended to context #{c} was answered by handler instances {got:?}; the handlers active for that context (by their register frame ids) are {exp:?}"
                )));
            }
            for (hid, ver) in &want {
                let a = fr
                    .iter()
                    .find(|w| meta_of(w, "frame_id").as_deref() == Some(&p.id) && meta_of(w, "handler_id").as_deref() == Some(hid))
                    .unwrap();
                let content = self.nu.content(a.hash.as_ref().unwrap())?;
                if String::from_utf8_lossy(&content) != format!("\"hv{ver}\"") {
                    return Err(rs(format!("{when}: handler {hid} answers {:?}, its registration says hv{ver}", String::from_utf8_lossy(&content))));
                }
            }
            self.past_triggers.push(p.id.clone());
        }
        // commands: call every (ctx, name) that could exist
        for c in 0..3u8 {
            for n in 0..2u8 {
                let name = CN[n as usize];
                let call = self.nu.append(&format!("{name}.call"), self.ctxs[c as usize], None, None)?;
                let want = self.m.commands.get(&(c, n)).cloned();
                let cid = call.id.clone();
                if want.is_some() {
                    let (_, ok) = self.nu.wait(T, |fr| {
                        fr.iter().any(|w| (w.topic == format!("{name}.complete") || w.topic == format!("{name}.error")) && meta_of(w, "frame_id").as_deref() == Some(&cid))
                    })?;
                    if !ok {
                        return Err(rs(format!("{when}: call of command {name} in context #{c} (defined by {:?}) got no terminal event", want)));
                    }
                } else {
                    std::thread::sleep(Duration::from_millis(10));
                }
                let fr = self.nu.frames()?;
                let mine: Vec<&WFrame> = fr.iter().filter(|w| meta_of(w, "frame_id").as_deref() == Some(&call.id)).collect();
                self.checks += 1;
                match want {
                    None => {
                        if !mine.is_empty() {
                            return Err(rs(format!(
                                "{when}: command {name} is not defined in context #{c}, yet a call there produced {:?} stamped {:?}",
                                mine.iter().map(|w| &w.topic).collect::<Vec<_>>(),
                                mine.first().and_then(|w| meta_of(w, "command_id"))
                            )));
                        }
                    }
                    Some((did, ver)) => {
                        let recv = mine.iter().find(|w| w.topic == format!("{name}.recv"));
                        let stamped_ok = mine.iter().all(|w| meta_of(w, "command_id").as_deref() == Some(&did));
                        let content = match recv {
                            Some(r) => String::from_utf8_lossy(&self.nu.content(r.hash.as_ref().unwrap())?).to_string(),
                            None => String::new(),
                        };
                        if !stamped_ok || content != format!("\"cv{ver}\"") {
                            return Err(rs(format!(
                                "{when}: call of {name} in context #{c} was answered {:?} with content {content:?} stamped {:?}; the latest valid definition there is {did} (cv{ver})",
                                mine.iter().map(|w| &w.topic).collect::<Vec<_>>(),
                                mine.first().and_then(|w| meta_of(w, "command_id"))
                            )));
                        }
                    }
                }
                self.past_triggers.push(call.id.clone());
            }
        }
        // generators: the instances started since `after_id`
        let want: Vec<String> = self.m.generators.values().filter_map(|v| v.clone()).collect();
        let want2 = want.clone();
        let (fr, ok) = self.nu.wait(Duration::from_secs(4), |fr| {
            want2.iter().all(|s| fr.iter().any(|w| w.id128() > after_id && w.topic.ends_with(".start") && meta_of(w, "source_id").as_deref() == Some(s)))
        })?;
        let mut got: Vec<String> = fr
            .iter()
            .filter(|w| w.id128() > after_id && w.topic.ends_with(".start") && !w.topic.starts_with("zz"))
            .filter_map(|w| meta_of(w, "source_id"))
            .collect();
        got.sort();
        let mut exp = want.clone();
        exp.sort();
        self.checks += 1;
        if !ok || got != exp {
            return Err(rs(format!(
                "{when}: generators started (by spawn id) {got:?}; those whose latest spawn succeeded are {exp:?}"
            )));
        }
        Ok(())
    }
}

fn run_in(case: &C17Case, nu: &mut Nu) -> Result<CaseInfo, Fail> {
    let mut ctxs = vec![ZERO];
    for _ in 0..2 {
        ctxs.push(nu.register_ctx()?);
    }
    let mut r = Run {
        nu,
        ctxs,
        m: ModelState::default(),
        version: 0,
        past_triggers: vec![],
        checks: 0,
        sentinel_n: 0,
    };
    r.settle_loops()?;
    let mut start_marker: u128 = 0;
    let mut restarts = 0;
    let mut same_name_two_ctx = false;
    let mut stopped_and_live = false;
    let mut had_stop = false;
    let mut failed_call = false;
    let mut replaced_while_down = false;
    let mut unregistered_while_down = false;
    let mut unreg_elsewhere = false;
    let mut same_text_redefined = false;
    for (i, ev) in case.events.iter().enumerate() {
        match ev {
            Ev::HReg { name, ctx, valid } => {
                r.version += 1;
                let n = HN[*name as usize];
                let f = r.nu.append(&format!("{n}.register"), r.ctxs[*ctx as usize], Some(h_script(n, r.version, *valid).as_bytes()), None)?;
                let prev = r.m.handlers.remove(&(*ctx, *name));
                if let Some((pid, _)) = &prev {
                    let pid = pid.clone();
                    r.wait(&format!("replaced handler {pid} did not announce .unregistered"), |fr| {
                        fr.iter().any(|w| w.topic == format!("{n}.unregistered") && meta_of(w, "handler_id").as_deref() == Some(&pid))
                    })?;
                    had_stop = true;
                }
                let fid = f.id.clone();
                let want = if *valid { format!("{n}.registered") } else { format!("{n}.unregistered") };
                r.wait(&format!("{n}.register {fid} was not answered by {want}"), |fr| {
                    fr.iter().any(|w| w.topic == want && meta_of(w, "handler_id").as_deref() == Some(&fid))
                })?;
                if *valid {
                    r.m.handlers.insert((*ctx, *name), (f.id.clone(), r.version));
                    if r.m.handlers.keys().any(|(c, nn)| nn == name && c != ctx) {
                        same_name_two_ctx = true;
                    }
                } else {
                    had_stop = true;
                }
            }
            Ev::HUnregElsewhere { name, ctx } => {
                let n = HN[*name as usize];
                let other = (*ctx + 1) % 3;
                let meta = r.m.handlers.get(&(*ctx, *name)).map(|(id, _)| MetaVal::O(vec![("handler_id".into(), MetaVal::S(id.clone()))]));
                r.nu.append(&format!("{n}.unregister"), r.ctxs[other as usize], None, meta)?;
                if let Some((pid, _)) = r.m.handlers.remove(&(other, *name)) {
                    r.wait(&format!("handler {pid} did not announce .unregistered after {n}.unregister in its context"), |fr| {
                        fr.iter().any(|w| w.topic == format!("{n}.unregistered") && meta_of(w, "handler_id").as_deref() == Some(&pid))
                    })?;
                    had_stop = true;
                }
                unreg_elsewhere = true;
            }
            Ev::HUnreg { name, ctx } | Ev::HBoom { name, ctx } => {
                let n = HN[*name as usize];
                let topic = if matches!(ev, Ev::HUnreg { .. }) { format!("{n}.unregister") } else { format!("boom.{n}") };
                r.nu.append(&topic, r.ctxs[*ctx as usize], None, None)?;
                if let Some((pid, _)) = r.m.handlers.remove(&(*ctx, *name)) {
                    r.wait(&format!("handler {pid} did not announce .unregistered after {topic}"), |fr| {
                        fr.iter().any(|w| w.topic == format!("{n}.unregistered") && meta_of(w, "handler_id").as_deref() == Some(&pid))
                    })?;
                    had_stop = true;
                }
            }
            Ev::GSpawn { name, ctx } | Ev::GSpawnBad { name, ctx } => {
                let n = GN[*name as usize];
                let bad = matches!(ev, Ev::GSpawnBad { .. });
                let f = r.nu.append(
                    &format!("{n}.spawn"),
                    r.ctxs[*ctx as usize],
                    if bad { None } else { Some(b"each {|x| $x}") },
                    Some(MetaVal::O(vec![("duplex".into(), MetaVal::Bool(true))])),
                )?;
                let running = r.m.running.contains(&(*ctx, *name));
                // a spawn without content, or for a (context, name) that is running, is refused
                let refused = bad || running;
                let fid = f.id.clone();
                let want = if refused { format!("{n}.spawn.error") } else { format!("{n}.start") };
                let (fr, ok) = r.nu.wait(T, |fr| {
                    fr.iter().any(|w| (w.topic == format!("{n}.start") || w.topic == format!("{n}.spawn.error")) && meta_of(w, "source_id").as_deref() == Some(&fid))
                })?;
                let got = fr
                    .iter()
                    .find(|w| (w.topic == format!("{n}.start") || w.topic == format!("{n}.spawn.error")) && meta_of(w, "source_id").as_deref() == Some(&f.id))
                    .map(|w| w.topic.clone());
                if !ok || got.as_deref() != Some(want.as_str()) {
                    return Err(rs(format!(
                        "{n}.spawn in context #{ctx} (content: {}, an instance of that name running in that context: {running}) was answered by {got:?}, expected {want}",
                        !bad
                    )));
                }
                if refused {
                    // the latest spawn of this (context, name) did not succeed; a running instance keeps running until the restart
                    if running {
                        // remember the running one for live probes, but it will not be restored
                        r.m.generators.insert((*ctx, *name), None);
                    } else {
                        r.m.generators.insert((*ctx, *name), None);
                    }
                    had_stop = true;
                } else {
                    r.m.generators.insert((*ctx, *name), Some(f.id.clone()));
                    r.m.running.insert((*ctx, *name));
                    if r.m.generators.iter().any(|((c, nn), v)| nn == name && c != ctx && v.is_some()) {
                        same_name_two_ctx = true;
                    }
                }
            }
            Ev::CDef { name, ctx, valid, same_text } => {
                r.version += 1;
                let n = CN[*name as usize];
                // (the text carries the version: identical text = the version of the current definition)
                let version = match (same_text, valid, r.m.commands.get(&(*ctx, *name))) {
                    (true, true, Some((_, v))) => {
                        same_text_redefined = true;
                        *v
                    }
                    _ => r.version,
                };
                let f = r.nu.append(&format!("{n}.define"), r.ctxs[*ctx as usize], Some(c_script(version, *valid).as_bytes()), None)?;
                if *valid {
                    r.m.commands.insert((*ctx, *name), (f.id.clone(), version));
                    if r.m.commands.keys().any(|(c, nn)| nn == name && c != ctx) {
                        same_name_two_ctx = true;
                    }
                } else {
                    let fid = f.id.clone();
                    r.wait("an invalid definition was not reported", |fr| {
                        fr.iter().any(|w| w.topic == format!("{n}.error") && meta_of(w, "command_id").as_deref() == Some(&fid))
                    })?;
                    had_stop = true;
                }
            }
            Ev::CCall { name, ctx, fail } => {
                let n = CN[*name as usize];
                let meta = if *fail { Some(MetaVal::O(vec![("fail".into(), MetaVal::Bool(true))])) } else { None };
                let f = r.nu.append(&format!("{n}.call"), r.ctxs[*ctx as usize], None, meta)?;
                if *fail && r.m.commands.contains_key(&(*ctx, *name)) {
                    failed_call = true;
                }
                if r.m.commands.contains_key(&(*ctx, *name)) {
                    let fid = f.id.clone();
                    r.wait(&format!("call of {n} got no terminal event"), |fr| {
                        fr.iter().any(|w| (w.topic == format!("{n}.complete") || w.topic == format!("{n}.error")) && meta_of(w, "frame_id").as_deref() == Some(&fid))
                    })?;
                }
                r.past_triggers.push(f.id.clone());
            }
            Ev::Probe => {
                // generators that were refused a second spawn keep their first instance until a restart:
                // live generator sets are only compared right after a (re)start
                let saved = std::mem::take(&mut r.m.generators);
                let res = r.probe_all(&format!("live, before event #{i}"), u128::MAX - 1);
                r.m.generators = saved;
                res?;
            }
            Ev::Restart | Ev::RestartAfterRegister { .. } | Ev::RestartAfterUnregister { .. } => {
                if had_stop && (!r.m.handlers.is_empty() || r.m.generators.values().any(|v| v.is_some()) || !r.m.commands.is_empty()) {
                    stopped_and_live = true;
                }
                // stamped frames per historical trigger before the restart
                let before = r.nu.frames()?;
                let count = |fr: &[WFrame], id: &String| fr.iter().filter(|w| meta_of(w, "frame_id").as_deref() == Some(id)).count();
                let counts: Vec<(String, usize)> = r.past_triggers.iter().map(|t| (t.clone(), count(&before, t))).collect();
                start_marker = before.iter().map(|w| w.id128()).max().unwrap_or(0);
                if let Ev::RestartAfterRegister { name, ctx } = ev {
                    r.version += 1;
                    let n = HN[*name as usize];
                    let (topic, cx, script) = (format!("{n}.register"), r.ctxs[*ctx as usize], h_script(n, r.version, true));
                    let mut appended: Option<WFrame> = None;
                    r.nu.restart_after(|ex| {
                        appended = Some(crate::hist::must("append register while down", ex.append(&fspec(&topic, cx, None, None), Some(script.as_bytes())))?);
                        Ok(())
                    })?;
                    let f = appended.expect("appended");
                    if r.m.handlers.insert((*ctx, *name), (f.id.clone(), r.version)).is_some() {
                        had_stop = true;
                        replaced_while_down = true;
                    }
                } else if let Some((name, ctx)) = match ev {
                    Ev::RestartAfterUnregister { name, ctx } if r.m.handlers.contains_key(&(*ctx, *name)) => Some((*name, *ctx)),
                    _ => None,
                } {
                    let n = HN[name as usize];
                    let (hid, _) = r.m.handlers.remove(&(ctx, name)).expect("active");
                    let (topic, cx) = (format!("{n}.unregister"), r.ctxs[ctx as usize]);
                    let meta = MetaVal::O(vec![("handler_id".into(), MetaVal::S(hid))]);
                    r.nu.restart_after(|ex| {
                        crate::hist::must("append unregister while down", ex.append(&fspec(&topic, cx, Some(meta), None), None))?;
                        Ok(())
                    })?;
                    had_stop = true;
                    unregistered_while_down = true;
                } else {
                    r.nu.restart()?;
                }
                restarts += 1;
                r.m.running = r.m.generators.iter().filter(|(_, v)| v.is_some()).map(|(k, _)| *k).collect();
                r.settle_loops()?;
                r.probe_all(&format!("after restart #{restarts}"), start_marker)?;
                // nothing historical was executed again
                let after = r.nu.frames()?;
                // and no stop is announced a second time (a registration that failed or was stopped
                // stays that way: it is not attempted again)
                let mut stops: BTreeMap<String, usize> = BTreeMap::new();
                for w in after.iter().filter(|w| w.topic.ends_with(".unregistered")) {
                    if let Some(h) = meta_of(w, "handler_id") {
                        *stops.entry(h).or_insert(0) += 1;
                    }
                }
                r.checks += 1;
                if let Some((h, k)) = stops.iter().find(|(_, k)| **k > 1) {
                    return Err(rs(format!("after restart #{restarts}: the stop of handler registration {h} is announced {k} times (.unregistered): it was set up again at start-up")));
                }
                for (t, n) in counts {
                    let now = count(&after, &t);
                    r.checks += 1;
                    if now != n {
                        return Err(rs(format!(
                            "after restart #{restarts}: historical trigger/call {t} had {n} stamped outputs before the restart and has {now} now — it was executed again"
                        )));
                    }
                }
            }
        }
    }
    let _ = start_marker;
    if let Some(p) = r.nu.panics()?.first() {
        return Err(Fail::new(Class::Panic, format!("xs panicked: {p}")));
    }
    let mut labels = vec![];
    for (on, name) in [
        (same_name_two_ctx, "same-name-in-two-contexts"),
        (failed_call, "command-call-failed-at-run-time"),
        (replaced_while_down, "replacing-register-found-only-in-history"),
        (unregistered_while_down, "unregister-found-only-in-history"),
        (unreg_elsewhere, "unregister-with-foreign-handler-id-in-another-context"),
        (same_text_redefined, "command-redefined-with-identical-text"),
        (stopped_and_live, "stopped-and-live-at-restart"),
        (restarts >= 2, "two-or-more-restarts"),
    ] {
        if on {
            labels.push(name.to_string());
        }
    }
    Ok(CaseInfo {
        nontrivial: stopped_and_live,
        shape: hash64(format!("{:?}", case).as_bytes()),
        labels,
        known: vec![],
        checks: r.checks,
    })
}

pub fn run(tier: Tier, seed: u64, replay: Option<&std::path::Path>) -> i32 {
    super::simple_run(
        "C17",
        tier,
        seed,
        replay,
        (640, 12000),
        25,
        strategy,
        run_case,
        "histories (2..11 events, plus a final restart; 1..3 restarts = SIGKILL of the server process and a new process on the same store) over handler register (valid/invalid) / unregister / failing trigger, duplex generator spawn / spawn without content / second spawn of a running name, command define (valid/invalid) / call (some calls ask the closure to raise), for two names of each kind in three contexts, the same name in several contexts included. After each restart, once live sentinels (a fresh register, spawn and define+call) have come through, probes are appended to every context and every command name is called in every context: the handlers answering must be exactly the model's active instances with their original register ids and their own script version; the generators that emit .start must be exactly those whose latest spawn of that (context, name) succeeded, with that spawn's id; each call is answered by the latest valid definition of that (context, name) and by nobody where none exists; no historical probe or call gains a stamped output. Non-trivial = something stopped/replaced/failed and something live at a restart. Distinct by case hash.",
        vec![
            "handlers use the default resume (tail); resuming from history is C14's subject".to_string(),
            "the driver waits for each .unregistered before killing the process (a kill between a user's .unregister and the handler's .unregistered is not generated)".to_string(),
        ],
        1,
    )
}
