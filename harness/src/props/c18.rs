//! C18: generator lifecycle — start, ordered output, stop, restart, duplex input.

use std::time::Duration;

use proptest::prelude::*;
use proptest::strategy::BoxedStrategy;
use serde::{Deserialize, Serialize};

use crate::model::*;
use crate::nu::*;
use crate::runner::*;
use crate::wire::*;

#[derive(Clone, Debug, PartialEq, Serialize, Deserialize)]
pub enum Shape {
    /// `"a"`
    Single,
    /// `["a" "b"]` (a list value, not a stream)
    BareList,
    /// `["a" "b"] | each {|x| $x}`
    EachStream,
    /// `1..k | each {|i| $"s($i)"}`
    RangeStream,
    /// `"x" | ignore`: the pipeline produces nothing at all
    Ignore,
}

#[derive(Clone, Debug, Serialize, Deserialize)]
pub enum Gen {
    Plain {
        shape: Shape,
        strings: Vec<String>,
        /// lifecycles to watch (each restart takes a real second)
        lifecycles: u8,
    },
    /// `each {|x| $"hi: ($x)"}` with duplex input
    Duplex {
        /// (target: 0 = this generator, 1 = same name in another context, 2 = another name; content)
        sends: Vec<(u8, String)>,
        /// unrelated frames appended between the sends
        noise: u8,
        /// the first send addressed to the generator carries 6 MiB in front of its letters:
        /// a large input followed at once by small ones must still come out first
        #[serde(default)]
        big_first: bool,
    },
    /// a duplex generator whose pipeline ends after one input (`| take 1`): it stops, is
    /// started again, and the new instance must only see sends appended while *it* runs
    DuplexRestart { first: String, second: String },
    /// `.spawn` without content
    NoContent,
    /// a second `.spawn` for a name that is running
    Respawn,
}

#[derive(Clone, Debug, Serialize, Deserialize)]
pub struct C18Case {
    pub ctx: u8,
    pub gen: Gen,
}

pub fn strategy() -> BoxedStrategy<C18Case> {
    let s = || prop_oneof![6 => "[a-z0-9 ]{1,6}", 1 => Just(String::new()), 1 => Just("é日本".to_string())];
    let plain = (
        prop_oneof![2 => Just(Shape::Single), 2 => Just(Shape::BareList), 3 => Just(Shape::EachStream), 2 => Just(Shape::RangeStream), 1 => Just(Shape::Ignore)],
        proptest::collection::vec(s(), 0..=5),
        prop_oneof![8 => Just(1u8), 2 => Just(2u8), 1 => Just(3u8)],
    )
        .prop_map(|(shape, mut strings, lifecycles)| {
            if shape == Shape::Single {
                strings.truncate(1);
                if strings.is_empty() {
                    strings.push("x".into());
                }
            }
            Gen::Plain {
                shape,
                strings,
                lifecycles,
            }
        });
    let duplex = (
        // (5..10 letters: nushell holds back byte-stream chunks shorter than 4 bytes for its
        // UTF-8 boundary handling, so shorter sends are merged with the next one)
        proptest::collection::vec((prop_oneof![5 => Just(0u8), 1 => Just(1u8), 1 => Just(2u8)], "[a-z]{5,10}"), 0..=6),
        0u8..3,
        proptest::bool::weighted(0.15),
    )
        .prop_map(|(sends, noise, big_first)| Gen::Duplex { sends, noise, big_first });
    (
        0u8..2,
        prop_oneof![
            6 => plain,
            4 => duplex,
            1 => ("[a-z]{5,8}", "[a-z]{5,8}").prop_map(|(first, second)| Gen::DuplexRestart { first, second }),
            2 => Just(Gen::NoContent),
            1 => Just(Gen::Respawn)
        ],
    )
        .prop_map(|(ctx, gen)| C18Case { ctx, gen })
        .boxed()
}

fn expr(shape: &Shape, strings: &[String]) -> String {
    let list = format!("[{}]", strings.iter().map(|s| nu_str(s)).collect::<Vec<_>>().join(" "));
    match shape {
        Shape::Single => nu_str(&strings[0]),
        Shape::BareList => list,
        Shape::EachStream => format!("{list} | each {{|x| $x}}"),
        Shape::RangeStream => format!("1..{} | each {{|i| $\"s($i)\"}}", strings.len().max(1)),
        Shape::Ignore => "\"x\" | ignore".to_string(),
    }
}

fn produced(shape: &Shape, strings: &[String]) -> Vec<String> {
    match shape {
        Shape::RangeStream => (1..=strings.len().max(1)).map(|i| format!("s{i}")).collect(),
        Shape::Ignore => vec![],
        _ => strings.to_vec(),
    }
}

fn gen_fail(msg: String) -> Fail {
    Fail::new(Class::Follow, msg)
}

pub fn run_case(case: &C18Case) -> Result<CaseInfo, Fail> {
    let mut nu = Nu::start(false, true, false)?;
    let r = run_in(case, &mut nu);
    nu.finish();
    r
}

fn sourced<'a>(frames: &'a [WFrame], id: &str) -> Vec<&'a WFrame> {
    frames.iter().filter(|w| meta_of(w, "source_id").as_deref() == Some(id)).collect()
}

fn run_in(case: &C18Case, nu: &mut Nu) -> Result<CaseInfo, Fail> {
    let c1 = nu.register_ctx()?;
    let ctx = if case.ctx == 0 { ZERO } else { c1 };
    let other_ctx = if case.ctx == 0 { c1 } else { ZERO };
    let mut labels: Vec<String> = vec![];
    let mut nontrivial = false;
    let mut checks = 0u64;
    match &case.gen {
        Gen::Plain { shape, strings, lifecycles } => {
            let e = expr(shape, strings);
            let want = produced(shape, strings);
            let sp = nu.append("g.spawn", ctx, Some(e.as_bytes()), None)?;
            let l = *lifecycles as usize;
            let (frames, ok) = nu.wait(Duration::from_millis(6000 + 1500 * l as u64), |fr| {
                sourced(fr, &sp.id).iter().filter(|w| w.topic == "g.stop").count() >= l
                    || fr.iter().any(|w| w.topic == "g.spawn.error")
            })?;
            let mine = sourced(&frames, &sp.id);
            if !ok {
                let panics = nu.panics()?;
                return Err(gen_fail(format!(
                    "generator `{e}` ({} strings): {l} lifecycle(s) did not complete: frames {:?}; panics in xs: {:?}",
                    want.len(),
                    mine.iter().map(|w| &w.topic).collect::<Vec<_>>(),
                    panics.first()
                )));
            }
            // (start recv{k} stop)+ (start recv{0..k})?
            let mut i = 0;
            let mut cycles = 0;
            while i < mine.len() {
                if mine[i].topic != "g.start" {
                    return Err(gen_fail(format!("generator `{e}`: expected g.start at position {i} of {:?}", mine.iter().map(|w| &w.topic).collect::<Vec<_>>())));
                }
                i += 1;
                let mut k = 0;
                while i < mine.len() && mine[i].topic == "g.recv" {
                    let h = mine[i].hash.clone().ok_or_else(|| Fail::new(Class::Cas, "g.recv without content: the produced string is not there to be read".to_string()))?;
                    let c = nu.content(&h)?;
                    checks += 1;
                    if want.get(k).map(|s| s.as_bytes()) != Some(&c[..]) {
                        return Err(gen_fail(format!(
                            "generator `{e}`: output #{k} of a lifecycle is {:?}, the pipeline produces {:?}",
                            String::from_utf8_lossy(&c),
                            want
                        )));
                    }
                    k += 1;
                    i += 1;
                }
                if i < mine.len() {
                    if mine[i].topic != "g.stop" || k != want.len() {
                        return Err(gen_fail(format!(
                            "generator `{e}`: lifecycle {cycles} has {k} outputs then {:?}; the pipeline produces {} strings then stops",
                            mine[i].topic,
                            want.len()
                        )));
                    }
                    i += 1;
                    cycles += 1;
                }
            }
            for w in &mine {
                if w.ctx128() != ctx {
                    return Err(Fail::new(Class::ScopeContext, format!("generator frame {} landed in context {}", w.topic, w.ctx)));
                }
            }
            if cycles < l {
                return Err(gen_fail(format!("generator `{e}`: {cycles} complete lifecycles, waited for {l}")));
            }
            nontrivial = want.len() >= 2 && l >= 2;
            labels.push(format!("shape-{shape:?}").to_lowercase());
            if l >= 2 {
                labels.push("restart-observed".into());
            }
        }
        Gen::DuplexRestart { first, second } => {
            let sp = nu.append(
                "g.spawn",
                ctx,
                Some(b"each {|x| $\"hi: ($x)\"} | take 1"),
                Some(MetaVal::O(vec![("duplex".into(), MetaVal::Bool(true))])),
            )?;
            let (_, ok) = nu.wait(Duration::from_secs(10), |fr| sourced(fr, &sp.id).iter().any(|w| w.topic == "g.start"))?;
            if !ok {
                return Err(gen_fail("duplex generator did not start within 10 s".into()));
            }
            nu.append("g.send", ctx, Some(first.as_bytes()), None)?;
            // first lifecycle ends after one input; wait for the second instance
            let (_, ok) = nu.wait(Duration::from_secs(12), |fr| sourced(fr, &sp.id).iter().filter(|w| w.topic == "g.start").count() >= 2)?;
            if !ok {
                let fr = nu.frames()?;
                return Err(gen_fail(format!(
                    "duplex generator with `| take 1` was sent one input but was not stopped and started again: {:?}",
                    sourced(&fr, &sp.id).iter().map(|w| &w.topic).collect::<Vec<_>>()
                )));
            }
            nu.append("g.send", ctx, Some(second.as_bytes()), None)?;
            let (frames, ok) = nu.wait(Duration::from_secs(12), |fr| sourced(fr, &sp.id).iter().filter(|w| w.topic == "g.recv").count() >= 2)?;
            let mine = sourced(&frames, &sp.id);
            let mut got = vec![];
            for r in mine.iter().filter(|w| w.topic == "g.recv") {
                got.push(String::from_utf8_lossy(&nu.content(r.hash.as_ref().unwrap())?).to_string());
                checks += 1;
            }
            let want = vec![format!("hi: {first}"), format!("hi: {second}")];
            if !ok || got[..got.len().min(2)] != want[..] {
                return Err(gen_fail(format!(
                    "duplex generator restarted after one input: its instances produced {got:?}; the first was sent {first:?}, the second (after its .start) {second:?} — each send must be fed exactly once, to the instance running at that time"
                )));
            }
            nontrivial = true;
            labels.push("duplex-restart".into());
        }
        Gen::NoContent => {
            let sp = nu.append("g.spawn", ctx, None, None)?;
            let (frames, ok) = nu.wait(Duration::from_secs(10), |fr| !sourced(fr, &sp.id).is_empty())?;
            std::thread::sleep(Duration::from_millis(30));
            let frames = if ok { nu.frames()? } else { frames };
            let mine = sourced(&frames, &sp.id);
            checks += 1;
            if mine.len() != 1 || mine[0].topic != "g.spawn.error" || meta_of(mine[0], "reason").is_none() || mine[0].ctx128() != ctx {
                return Err(gen_fail(format!(
                    "a spawn without content must yield exactly one g.spawn.error naming it (with a reason, in its context); got {:?}",
                    mine.iter().map(|w| (&w.topic, &w.meta, &w.ctx)).collect::<Vec<_>>()
                )));
            }
            labels.push("spawn-without-content".into());
            // the same refusal a second time is reported a second time
            let again = nu.append("g.spawn", ctx, None, None)?;
            let (frames, ok) = nu.wait(Duration::from_secs(10), |fr| !sourced(fr, &again.id).is_empty())?;
            let mine = sourced(&frames, &again.id);
            checks += 1;
            if !ok || mine.len() != 1 || mine[0].topic != "g.spawn.error" {
                return Err(gen_fail(format!(
                    "a second spawn without content must yield its own g.spawn.error; got {:?}",
                    mine.iter().map(|w| (&w.topic, &w.meta)).collect::<Vec<_>>()
                )));
            }
            // a spawn that could not be honoured leaves nothing behind: the next (valid) spawn of
            // that name in that context is accepted and runs
            let sp2 = nu.append("g.spawn", ctx, Some(b"\"after\""), None)?;
            let (frames, ok) = nu.wait(Duration::from_secs(10), |fr| sourced(fr, &sp2.id).iter().any(|w| w.topic == "g.stop" || w.topic == "g.spawn.error"))?;
            let mine = sourced(&frames, &sp2.id);
            checks += 1;
            let topics: Vec<&str> = mine.iter().map(|w| w.topic.as_str()).collect();
            if !ok || topics.len() < 3 || topics[..3] != ["g.start", "g.recv", "g.stop"] {
                return Err(gen_fail(format!(
                    "a valid g.spawn after a refused (content-less) one must run (start, recv, stop); got {:?}",
                    mine.iter().map(|w| (&w.topic, &w.meta)).collect::<Vec<_>>()
                )));
            }
            let h = mine[1].hash.clone().ok_or_else(|| Fail::new(Class::Cas, "g.recv without content: the produced string is not there to be read".to_string()))?;
            if nu.content(&h)? != b"after" {
                return Err(Fail::new(Class::Cas, "g.recv content differs from the produced string".to_string()));
            }
        }
        Gen::Respawn => {
            let first = nu.append("g.spawn", ctx, Some(b"each {|x| $x}"), Some(MetaVal::O(vec![("duplex".into(), MetaVal::Bool(true))])))?;
            nu.wait(Duration::from_secs(10), |fr| sourced(fr, &first.id).iter().any(|w| w.topic == "g.start"))?;
            let second = nu.append("g.spawn", ctx, Some(b"\"again\""), None)?;
            let (_, ok) = nu.wait(Duration::from_secs(10), |fr| !sourced(fr, &second.id).is_empty())?;
            std::thread::sleep(Duration::from_millis(30));
            let frames = nu.frames()?;
            let mine = sourced(&frames, &second.id);
            checks += 1;
            if !ok || mine.len() != 1 || mine[0].topic != "g.spawn.error" || meta_of(mine[0], "reason").is_none() {
                return Err(gen_fail(format!(
                    "a spawn for a running name must yield exactly one g.spawn.error naming it; got {:?}",
                    mine.iter().map(|w| (&w.topic, &w.meta)).collect::<Vec<_>>()
                )));
            }
            labels.push("spawn-for-running-name".into());
        }
        Gen::Duplex { sends, noise, big_first } => {
            let sp = nu.append(
                "g.spawn",
                ctx,
                Some(b"each {|x| $\"hi: ($x)\"}"),
                // (every other case the spawn carries more meta than the switch, as frames
                // appended by handlers and operators do)
                Some(MetaVal::O(if *noise % 2 == 1 {
                    vec![("note".into(), MetaVal::S("spawned by hand".into())), ("duplex".into(), MetaVal::Bool(true)), ("frame_id".into(), MetaVal::S("03gy000000000000000000000".into()))]
                } else {
                    vec![("duplex".into(), MetaVal::Bool(true))]
                })),
            )?;
            let (_, ok) = nu.wait(Duration::from_secs(10), |fr| sourced(fr, &sp.id).iter().any(|w| w.topic == "g.start"))?;
            if !ok {
                return Err(gen_fail("duplex generator did not start within 10 s".into()));
            }
            let mut want: Vec<String> = vec![];
            let mut big_pending = *big_first;
            // a send without content carries nothing to feed: the instance goes on as if it were not there
            if sends.len() % 2 == 1 {
                nu.append("g.send", ctx, None, None)?;
                labels.push("send-without-content".into());
            }
            for (target, content) in sends {
                // (no noise behind the large send: the next send follows it at once)
                for _ in 0..(if *big_first && !big_pending { 0 } else { *noise }) {
                    nu.append("noise", ctx, Some(b"n"), None)?;
                }
                match target {
                    0 => {
                        let content = if big_pending {
                            big_pending = false;
                            labels.push("large-send-followed-by-small-ones".into());
                            format!("{}{content}", "a".repeat(6 << 20))
                        } else {
                            content.clone()
                        };
                        nu.append("g.send", ctx, Some(content.as_bytes()), None)?;
                        want.push(format!("hi: {content}"));
                    }
                    1 => {
                        nu.append("g.send", other_ctx, Some(content.as_bytes()), None)?;
                    }
                    _ => {
                        nu.append("other.send", ctx, Some(content.as_bytes()), None)?;
                    }
                }
            }
            // a final send closes the negative checks: when its echo is out, earlier ones had their chance
            nu.append("g.send", ctx, Some(b"final"), None)?;
            want.push("hi: final".into());
            let n = want.len();
            if *big_first && want.len() >= 2 && want[0].len() > (1 << 20) {
                // nushell hands a large input to the pipeline in chunks (one `each` element per
                // chunk), so elements are not sends here: what must hold is that the bytes fed to
                // the pipeline are the sends' bytes, once each, in order
                let fed: String = want.iter().map(|w| &w[4..]).collect();
                let deadline = std::time::Instant::now() + Duration::from_secs(30);
                let mut last = (0usize, std::time::Instant::now());
                let frames = loop {
                    let fr = nu.frames()?;
                    let cnt = sourced(&fr, &sp.id).iter().filter(|w| w.topic == "g.recv").count();
                    if cnt != last.0 {
                        last = (cnt, std::time::Instant::now());
                    }
                    if (cnt >= 2 && last.1.elapsed() > Duration::from_millis(400)) || std::time::Instant::now() > deadline {
                        break fr;
                    }
                    std::thread::sleep(Duration::from_millis(10));
                };
                let mut got = String::new();
                for r in sourced(&frames, &sp.id).iter().filter(|w| w.topic == "g.recv") {
                    let c = nu.content(r.hash.as_ref().unwrap())?;
                    let c = String::from_utf8_lossy(&c).to_string();
                    got.push_str(c.strip_prefix("hi: ").unwrap_or(&c));
                    checks += 1;
                }
                if got != fed {
                    let tail = |s: &str| s[s.len().saturating_sub(40)..].to_string();
                    return Err(gen_fail(format!(
                        "duplex generator was fed {} bytes ending {:?}; the sends addressed to it are {} bytes ending {:?} (a large send followed at once by small ones: in order, once each)",
                        got.len(),
                        tail(&got),
                        fed.len(),
                        tail(&fed)
                    )));
                }
                labels.push("duplex".into());
                if let Some(p) = nu.panics()?.first() {
                    return Err(Fail::new(Class::Panic, format!("xs panicked: {p}")));
                }
                return Ok(CaseInfo {
                    nontrivial: true,
                    shape: hash64(format!("{:?}", case).as_bytes()),
                    labels,
                    known: vec![],
                    checks,
                });
            }
            let (frames, ok) = nu.wait(Duration::from_secs(15), |fr| {
                sourced(fr, &sp.id).iter().filter(|w| w.topic == "g.recv").count() >= n
            })?;
            let mine = sourced(&frames, &sp.id);
            let recvs: Vec<&&WFrame> = mine.iter().filter(|w| w.topic == "g.recv").collect();
            let mut got = vec![];
            for r in &recvs {
                let c = nu.content(r.hash.as_ref().unwrap())?;
                got.push(String::from_utf8_lossy(&c).to_string());
                checks += 1;
            }
            if !ok || got != want {
                let short = |v: &Vec<String>| -> Vec<String> {
                    v.iter()
                        .map(|s| if s.len() > 60 { format!("{}..({} bytes)..{}", &s[..12], s.len(), &s[s.len() - 12..]) } else { s.clone() })
                        .collect()
                };
                return Err(gen_fail(format!(
                    "duplex generator in context {} received sends and produced {:?}; the sends addressed to it (in order) call for {:?}",
                    id_str(ctx),
                    short(&got),
                    short(&want)
                )));
            }
            if mine.iter().any(|w| w.topic == "g.stop") {
                return Err(gen_fail("duplex generator stopped by itself".into()));
            }
            nontrivial = sends.iter().filter(|s| s.0 == 0).count() >= 3;
            labels.push("duplex".into());
            if sends.iter().any(|s| s.0 == 1) {
                labels.push("send-in-other-context".into());
            }
        }
    }
    if let Some(p) = nu.panics()?.first() {
        return Err(Fail::new(Class::Panic, format!("xs panicked: {p}")));
    }
    Ok(CaseInfo {
        nontrivial,
        shape: hash64(format!("{:?}", case).as_bytes()),
        labels,
        known: vec![],
        checks,
    })
}

pub fn run(tier: Tier, seed: u64, replay: Option<&std::path::Path>) -> i32 {
    super::simple_run(
        "C18",
        tier,
        seed,
        replay,
        (800, 12000),
        30,
        strategy,
        run_case,
        "generator programs producing 0..5 strings (incl. the empty string and multi-byte text) as a single value, a bare list value, an `each` stream, a range stream or a pipeline ending in `| ignore`, watched for 1 to 3 lifecycles (real 1 s restarts); `.spawn` without content, followed by a valid spawn of the same name which must run; `.spawn` for a running name; a duplex generator that ends after one input and is restarted; duplex echo generators with 0..6 `.send` frames addressed to the generator, to the same name in another context, or to another name, interleaved with unrelated traffic, closed by a final send. Oracle per spawn id: frames with that source_id match (start recv{k} stop)+ with the k contents equal to the produced strings in order, all in the spawn's context; a refused spawn yields exactly one `.spawn.error` with source_id and reason; duplex: exactly one `.recv` per send addressed to this instance, in order, none for foreign sends. Non-trivial = >= 2 strings over >= 2 lifecycles, or duplex with >= 3 own sends. Distinct by case hash.",
        vec![
            "generator programs produce strings (other value types are outside the statement)".to_string(),
            "programs come from four templates, not from the nu grammar".to_string(),
            "duplex input reaches the pipeline as a byte stream whose chunking nushell decides (chunks under 4 bytes are held back for UTF-8 boundary handling); sends carry 5..10 ASCII letters".to_string(),
        ],
        1,
    )
}
