//! C19: command calls — ordered results, exactly one terminal event, stamps,
//! independence of calls, latest valid definition wins.

use std::collections::BTreeMap;
use std::time::Duration;

use proptest::prelude::*;
use proptest::strategy::BoxedStrategy;
use serde::{Deserialize, Serialize};

use crate::model::*;
use crate::nu::*;
use crate::props::c15::Val;
use crate::runner::*;
use crate::wire::*;

#[derive(Clone, Debug, PartialEq, Serialize, Deserialize)]
pub enum Output {
    Empty,
    Single(Val),
    Values(Vec<Val>),
    /// `1..n | each {|i| $"s($i)"}`
    Stream(u8),
    /// a stream whose k-th element raises (lazily): only the weak clauses are asserted
    StreamErr(u8, u8),
    /// the closure leaves through `return <value>` before its last expression
    EarlyReturn(Val),
    /// the closure's value is a range `1..n`: one result per element
    Range(u8),
}

#[derive(Clone, Debug, PartialEq, Serialize, Deserialize)]
pub enum Broken {
    No,
    /// the closure raises before producing output
    RuntimeError,
    /// the closure fails inside a built-in store command given a malformed argument
    /// (`.cat --last-id "not-an-id"`): a closure error like any other
    BadBuiltinArg,
    /// the closure pipes a list stream into `.append`, which takes a string, binary, record or
    /// nothing: a closure error like any other
    StreamIntoAppend,
    /// the definition script does not parse
    Parse,
    /// no `run` field
    NoRun,
}

#[derive(Clone, Debug, Serialize, Deserialize)]
pub struct Def {
    pub output: Output,
    pub broken: Broken,
    pub explicit_append: bool,
    /// an explicit `.append` of the same bytes that the store refuses (unregistered context),
    /// swallowed by `try`: it must leave nothing behind and take nothing away
    #[serde(default)]
    pub refused_append: bool,
    /// `1..n | each {..} | to text | .append side.stream`: a byte stream (n lines) piped into
    /// `.append`; 0 = none
    #[serde(default)]
    pub stream_append: u16,
    pub env_bump: bool,
    pub sleep_ms: u8,
    pub suffix: Option<String>,
    pub ttl: Option<WTtl>,
    pub use_module: bool,
}

#[derive(Clone, Debug, Serialize, Deserialize)]
pub enum Ev {
    Define { name: u8, def: Def },
    /// `count` calls appended back to back (they overlap when the script sleeps)
    Calls {
        name: u8,
        count: u8,
        with_content: bool,
        /// the call frames are appended with ttl ephemeral: a call that arrives is a call
        #[serde(default)]
        ephemeral: bool,
    },
}

#[derive(Clone, Debug, Serialize, Deserialize)]
pub struct C19Case {
    pub events: Vec<Ev>,
}

fn val_out() -> BoxedStrategy<Val> {
    prop_oneof![
        4 => "[a-z0-9 ]{0,6}".prop_map(Val::Str),
        2 => (-99i64..99).prop_map(Val::Int),
        1 => (-20i16..20).prop_map(Val::Float),
        1 => (-9i8..9).prop_map(Val::WholeFloat),
        1 => any::<bool>().prop_map(Val::Bool),
        1 => proptest::collection::vec(("[a-c]{1,2}", 0i64..9), 1..3).prop_map(|kv| {
            let mut out: Vec<(String, i64)> = vec![];
            for (k, v) in kv {
                if !out.iter().any(|(k2, _)| *k2 == k) {
                    out.push((k, v));
                }
            }
            Val::Record(out)
        }),
    ]
    .boxed()
}

pub fn strategy() -> BoxedStrategy<C19Case> {
    let def = (
        prop_oneof![
            1 => Just(Output::Empty),
            3 => val_out().prop_map(Output::Single),
            4 => proptest::collection::vec(prop_oneof![6 => val_out(), 1 => Just(Val::Nothing)], 0..5).prop_map(Output::Values),
            2 => (1u8..5).prop_map(Output::Stream),
            1 => (2u8..5, 0u8..4).prop_map(|(n, k)| Output::StreamErr(n, k % n)),
            1 => val_out().prop_map(Output::EarlyReturn),
            1 => (1u8..5).prop_map(Output::Range),
        ],
        prop_oneof![8 => Just(Broken::No), 2 => Just(Broken::RuntimeError), 1 => Just(Broken::BadBuiltinArg), 1 => Just(Broken::StreamIntoAppend), 1 => Just(Broken::Parse), 1 => Just(Broken::NoRun)],
        (prop_oneof![3 => Just(false), 1 => Just(true)], proptest::bool::weighted(0.15), prop_oneof![8 => Just(0u16), 1 => 1u16..6, 1 => Just(3000u16)]),
        prop_oneof![2 => Just(false), 1 => Just(true)],
        prop_oneof![3 => Just(0u8), 1 => Just(15u8), 1 => Just(40u8)],
        proptest::option::weighted(0.3, proptest::sample::select(vec![".r", ".done", "-x", ""]).prop_map(|s| s.to_string())),
        prop_oneof![4 => Just(None), 1 => Just(Some(WTtl::Head(2))), 1 => Just(Some(WTtl::Ephemeral)), 1 => Just(Some(WTtl::Time(60_000)))],
        prop_oneof![5 => Just(false), 1 => Just(true)],
    )
        .prop_map(|(output, broken, (explicit_append, refused_append, stream_append), env_bump, sleep_ms, suffix, ttl, use_module)| Def {
            output,
            broken,
            explicit_append,
            refused_append,
            stream_append,
            env_bump,
            sleep_ms,
            suffix,
            ttl,
            use_module,
        });
    let ev = prop_oneof![
        2 => (0u8..4, def).prop_map(|(name, def)| Ev::Define { name, def }),
        3 => (0u8..4, 1u8..=4, any::<bool>(), proptest::bool::weighted(0.15)).prop_map(|(name, count, with_content, ephemeral)| Ev::Calls { name, count, with_content, ephemeral }),
    ];
    proptest::collection::vec(ev, 1..10)
        .prop_map(|events| C19Case { events })
        .boxed()
}

// names 0,1 live in the zero context, names 2,3 in a registered one
const NAMES: &[&str] = &["c", "cmd.two", "d", "d.x"];

fn render(def: &Def) -> String {
    if def.broken == Broken::Parse {
        return "{run: {|frame| let x = }}".to_string();
    }
    let mut s = String::from("{\n");
    if def.use_module {
        s.push_str("  modules: { helper: \"export def twice [x] { $x + $x }\" }\n");
    }
    if def.suffix.is_some() || def.ttl.is_some() {
        s.push_str("  return_options: {\n");
        if let Some(x) = &def.suffix {
            s.push_str(&format!("    suffix: {}\n", nu_str(x)));
        }
        if let Some(t) = &def.ttl {
            s.push_str(&format!("    ttl: {}\n", nu_str(&t.spelling())));
        }
        s.push_str("  }\n");
    }
    if def.broken == Broken::NoRun {
        s.push_str("  runx: {|frame| 1}\n}\n");
        return s;
    }
    s.push_str("  run: {|frame|\n");
    if def.env_bump {
        // state must not leak from one call into the next
        s.push_str("    $env.leak = (($env.leak? | default 0) + 1)\n");
        s.push_str("    if $env.leak != 1 { error make {msg: \"state leaked between calls\"} }\n");
    }
    if def.sleep_ms > 0 {
        s.push_str(&format!("    sleep {}ms\n", def.sleep_ms));
    }
    if def.explicit_append {
        s.push_str("    \"side\" | .append side.effect --meta {note: \"x\"} | ignore\n");
    }
    if def.stream_append > 0 {
        s.push_str(&format!("    1..{} | each {{|i| $\"l($i)\"}} | to text | .append side.stream | ignore\n", def.stream_append));
    }
    if def.refused_append {
        s.push_str("    try { \"side\" | .append side.effect --context \"0000000000000000000000001\" | ignore }\n");
    }
    if def.use_module {
        s.push_str("    let _m = (helper twice 2)\n");
    }
    if def.broken == Broken::RuntimeError {
        s.push_str("    error make {msg: \"boom\"}\n");
    }
    if def.broken == Broken::StreamIntoAppend {
        s.push_str("    [1 2] | each {|x| $x} | .append other.effect | ignore\n");
    }
    if def.broken == Broken::BadBuiltinArg {
        s.push_str("    .cat --last-id \"not-an-id\" | ignore\n");
    }
    match &def.output {
        Output::Empty => {}
        Output::Single(v) => s.push_str(&format!("    {}\n", v.nu())),
        Output::Values(vs) => s.push_str(&format!("    [{}]\n", vs.iter().map(|v| v.nu()).collect::<Vec<_>>().join(", "))),
        Output::Stream(n) => s.push_str(&format!("    1..{n} | each {{|i| $\"s($i)\"}}\n")),
        Output::Range(n) => s.push_str(&format!("    1..{n}\n")),
        Output::EarlyReturn(v) => s.push_str(&format!("    if ($frame.topic | str ends-with \".call\") {{ return ({}) }}\n    \"unreachable\"\n", v.nu())),
        Output::StreamErr(n, k) => s.push_str(&format!(
            "    1..{n} | each {{|i| if $i == {} {{ error make {{msg: \"late\"}} }} else {{ $\"s($i)\" }} }}\n",
            k + 1
        )),
    }
    s.push_str("  }\n}\n");
    s
}

fn expected_values(def: &Def) -> Option<Vec<serde_json::Value>> {
    match &def.output {
        Output::Empty => Some(vec![]),
        Output::Single(v) => Some(vec![v.json()]),
        Output::Values(vs) => Some(vs.iter().map(|v| v.json()).collect()),
        Output::Stream(n) => Some((1..=*n).map(|i| serde_json::json!(format!("s{i}"))).collect()),
        Output::EarlyReturn(v) => Some(vec![v.json()]),
        Output::Range(n) => Some((1..=*n).map(|i| serde_json::json!(i)).collect()),
        Output::StreamErr(..) => None,
    }
}

fn cmd(msg: String) -> Fail {
    Fail::new(Class::Follow, msg)
}

pub fn run_case(case: &C19Case) -> Result<CaseInfo, Fail> {
    let mut nu = Nu::start(false, false, true)?;
    let r = run_in(case, &mut nu);
    nu.finish();
    r
}

struct CallRec {
    frame: WFrame,
    name: u8,
    /// index into `defs` of the definition that must answer (None = undefined at that time)
    def: Option<usize>,
}

fn run_in(case: &C19Case, nu: &mut Nu) -> Result<CaseInfo, Fail> {
    nu.ready_commands()?;
    let c1 = nu.register_ctx()?;
    let ctx_of = |name: u8| if name < 2 { ZERO } else { c1 };
    let mut defs: Vec<(WFrame, Def, u8)> = Vec::new();
    let mut current: BTreeMap<u8, usize> = BTreeMap::new();
    let mut calls: Vec<CallRec> = Vec::new();
    let mut overlapped = false;
    let mut ephemeral_calls = false;
    let mut redefine_between_calls = false;
    let mut called: std::collections::BTreeSet<u8> = Default::default();
    for ev in &case.events {
        match ev {
            Ev::Define { name, def } => {
                let n = NAMES[*name as usize];
                let f = nu.append(&format!("{n}.define"), ctx_of(*name), Some(render(def).as_bytes()), None)?;
                defs.push((f, def.clone(), *name));
                let valid = !matches!(def.broken, Broken::Parse | Broken::NoRun);
                if valid {
                    if called.contains(name) {
                        redefine_between_calls = true;
                    }
                    current.insert(*name, defs.len() - 1);
                }
            }
            Ev::Calls { name, count, with_content, ephemeral } => {
                let n = NAMES[*name as usize];
                for i in 0..*count {
                    let c = format!("input-{i}");
                    let f = crate::hist::must(
                        "append call",
                        nu.exec.append(
                            &fspec(
                                &format!("{n}.call"),
                                ctx_of(*name),
                                Some(MetaVal::O(vec![("args".into(), MetaVal::O(vec![("i".into(), MetaVal::I(i as i64))]))])),
                                if *ephemeral { Some(WTtl::Ephemeral) } else { None },
                            ),
                            if *with_content { Some(c.as_bytes()) } else { None },
                        ),
                    )?;
                    if *ephemeral {
                        ephemeral_calls = true;
                    }
                    calls.push(CallRec {
                        frame: f,
                        name: *name,
                        def: current.get(name).cloned(),
                    });
                }
                called.insert(*name);
                if *count >= 2 && current.get(name).map(|d| defs[*d].1.sleep_ms > 0).unwrap_or(false) {
                    overlapped = true;
                }
            }
        }
    }
    // wait for a terminal event per answered call, and for the verdict on every definition
    let want_terminal: Vec<String> = calls.iter().filter(|c| c.def.is_some()).map(|c| c.frame.id.clone()).collect();
    let bad_defs: Vec<String> = defs
        .iter()
        .filter(|d| matches!(d.1.broken, Broken::Parse | Broken::NoRun))
        .map(|d| d.0.id.clone())
        .collect();
    let (frames, ok) = nu.wait(Duration::from_secs(20), |fr| {
        want_terminal.iter().all(|c| {
            fr.iter().any(|w| (w.topic.ends_with(".complete") || w.topic.ends_with(".error")) && meta_of(w, "frame_id").as_deref() == Some(c))
        }) && bad_defs
            .iter()
            .all(|d| fr.iter().any(|w| w.topic.ends_with(".error") && meta_of(w, "command_id").as_deref() == Some(d) && meta_of(w, "frame_id").is_none()))
    })?;
    if !ok {
        let missing: Vec<&String> = want_terminal
            .iter()
            .filter(|c| !frames.iter().any(|w| (w.topic.ends_with(".complete") || w.topic.ends_with(".error")) && meta_of(w, "frame_id").as_deref() == Some(c)))
            .collect();
        return Err(cmd(format!(
            "calls {missing:?} got no terminal event (.complete or .error) within 20 s, or an invalid definition was not reported"
        )));
    }
    std::thread::sleep(Duration::from_millis(20));
    let frames = nu.frames()?;
    let mut checks = 0u64;
    for c in &calls {
        let n = NAMES[c.name as usize];
        let mine: Vec<&WFrame> = frames
            .iter()
            .filter(|w| meta_of(w, "frame_id").as_deref() == Some(&c.frame.id) && w.topic != "side.effect" && w.topic != "side.stream")
            .collect();
        checks += 1;
        let Some(di) = c.def else {
            if !mine.is_empty() {
                return Err(cmd(format!("call {} of undefined command {n} produced {:?}", c.frame.id, mine.iter().map(|w| &w.topic).collect::<Vec<_>>())));
            }
            continue;
        };
        let (dframe, def, _) = &defs[di];
        // the script's explicit `.append`: exactly one frame per call, stamped with THIS call
        let sides: Vec<&WFrame> = frames
            .iter()
            .filter(|w| w.topic == "side.effect" && meta_of(w, "frame_id").as_deref() == Some(&c.frame.id))
            .collect();
        let want_sides = if def.explicit_append { 1 } else { 0 };
        if sides.len() != want_sides {
            return Err(cmd(format!(
                "call {} of {n}: {} frames of its explicit `.append side.effect` carry its frame_id, expected {want_sides} (all side.effect stamps: {:?}); script:\n{}",
                c.frame.id,
                sides.len(),
                frames.iter().filter(|w| w.topic == "side.effect").map(|w| meta_of(w, "frame_id")).collect::<Vec<_>>(),
                render(def)
            )));
        }
        for w in &sides {
            if meta_of(w, "command_id").as_deref() != Some(&dframe.id) || meta_of(w, "note").as_deref() != Some("x") {
                return Err(cmd(format!("call {} of {n}: explicit append carries meta {:?}", c.frame.id, w.meta)));
            }
            if w.ctx != c.frame.ctx {
                return Err(Fail::new(Class::ScopeContext, format!("call {} of {n}: side.effect landed in context {} not the caller's", c.frame.id, w.ctx)));
            }
            let h = w.hash.clone().ok_or_else(|| cmd("side.effect without content".to_string()))?;
            if nu.content(&h)? != b"side" {
                return Err(Fail::new(Class::Cas, "side.effect content differs from what the script piped in".to_string()));
            }
        }
        // a byte stream piped into `.append`: one frame per call whose content is every line
        let streams: Vec<&WFrame> = frames
            .iter()
            .filter(|w| w.topic == "side.stream" && meta_of(w, "frame_id").as_deref() == Some(&c.frame.id))
            .collect();
        if streams.len() != (def.stream_append > 0) as usize {
            return Err(cmd(format!("call {} of {n}: {} side.stream frames carry its frame_id; script:\n{}", c.frame.id, streams.len(), render(def))));
        }
        for w in &streams {
            let h = w.hash.clone().ok_or_else(|| cmd("side.stream without content".to_string()))?;
            let got = nu.content(&h)?;
            let want: String = (1..=def.stream_append).map(|i| format!("l{i}\n")).collect();
            if got != want.as_bytes() {
                return Err(Fail::new(
                    Class::Cas,
                    format!(
                        "call {} of {n}: a {}-line byte stream piped into `.append` was stored as {} bytes (ending {:?}), {} bytes were piped in",
                        c.frame.id,
                        def.stream_append,
                        got.len(),
                        String::from_utf8_lossy(&got[got.len().saturating_sub(12)..]),
                        want.len()
                    ),
                ));
            }
        }
        let suffix = def.suffix.clone().unwrap_or(".recv".into());
        let terminals: Vec<&&WFrame> = mine
            .iter()
            .filter(|w| w.topic == format!("{n}.complete") || w.topic == format!("{n}.error"))
            .collect();
        if terminals.len() != 1 {
            return Err(cmd(format!(
                "call {} of {n} has {} terminal events {:?} (exactly one of .complete / .error expected)",
                c.frame.id,
                terminals.len(),
                mine.iter().map(|w| &w.topic).collect::<Vec<_>>()
            )));
        }
        if mine.last().map(|w| w.id.clone()) != Some(terminals[0].id.clone()) {
            return Err(cmd(format!(
                "call {} of {n}: frames after its terminal event: {:?}",
                c.frame.id,
                mine.iter().map(|w| &w.topic).collect::<Vec<_>>()
            )));
        }
        for w in &mine {
            if meta_of(w, "command_id").as_deref() != Some(&dframe.id) {
                return Err(cmd(format!(
                    "call {} of {n}: frame {} is stamped command_id {:?}; the latest valid definition before the call is {}",
                    c.frame.id,
                    w.topic,
                    meta_of(w, "command_id"),
                    dframe.id
                )));
            }
            if w.ctx != c.frame.ctx {
                return Err(Fail::new(Class::ScopeContext, format!("call {} of {n}: {} landed in context {} not the caller's", c.frame.id, w.topic, w.ctx)));
            }
        }
        let recvs: Vec<&&WFrame> = mine.iter().filter(|w| w.topic == format!("{n}{suffix}")).collect();
        let errored = terminals[0].topic.ends_with(".error");
        let expect_error = matches!(def.broken, Broken::RuntimeError | Broken::BadBuiltinArg | Broken::StreamIntoAppend);
        match expected_values(def) {
            Some(vals) if !expect_error => {
                if errored {
                    return Err(cmd(format!(
                        "call {} of {n} ended with .error {:?}; its script produces {} values; script:\n{}",
                        c.frame.id,
                        meta_of(terminals[0], "error"),
                        vals.len(),
                        render(def)
                    )));
                }
                if recvs.len() != vals.len() || mine.len() != vals.len() + 1 {
                    return Err(cmd(format!(
                        "call {} of {n} produced {:?}, the script yields {} values on {n}{suffix}; script:\n{}",
                        c.frame.id,
                        mine.iter().map(|w| &w.topic).collect::<Vec<_>>(),
                        vals.len(),
                        render(def)
                    )));
                }
                for (r, v) in recvs.iter().zip(vals.iter()) {
                    if r.ttl != def.ttl {
                        return Err(cmd(format!("call {}: {} has ttl {:?}, configured {:?}", c.frame.id, r.topic, r.ttl, def.ttl)));
                    }
                    let h = r.hash.clone().ok_or_else(|| cmd(format!("{} without content", r.topic)))?;
                    let bytes = nu.content(&h)?;
                    let got: serde_json::Value = serde_json::from_slice(&bytes)
                        .map_err(|e| Fail::new(Class::Cas, format!("{} content is not JSON: {e}", r.topic)))?;
                    if got != *v {
                        return Err(cmd(format!(
                            "call {} of {n}: results {:?} arrive as {got}, expected {v} at that position (order/content); script:\n{}",
                            c.frame.id,
                            recvs.len(),
                            render(def)
                        )));
                    }
                    if sha256_integrity(&bytes) != h {
                        return Err(Fail::new(Class::Cas, format!("{} content does not hash to its hash", r.topic)));
                    }
                }
            }
            _ if expect_error => {
                if !errored || mine.len() != 1 {
                    return Err(cmd(format!(
                        "call {} of {n}: the closure raises before any output, yet the call produced {:?}",
                        c.frame.id,
                        mine.iter().map(|w| &w.topic).collect::<Vec<_>>()
                    )));
                }
            }
            _ => {
                // lazily raised error inside a stream: only the weak clauses (one terminal event,
                // stamps, context) — already checked — and no more results than elements
                if let Output::StreamErr(nn, _) = def.output {
                    if recvs.len() > nn as usize {
                        return Err(cmd(format!("call {}: {} results from a {nn}-element stream", c.frame.id, recvs.len())));
                    }
                }
            }
        }
    }
    // invalid definitions: exactly one <name>.error carrying their id, and they never answer
    for (dframe, def, name) in &defs {
        let n = NAMES[*name as usize];
        if matches!(def.broken, Broken::Parse | Broken::NoRun) {
            let errs: Vec<&WFrame> = frames
                .iter()
                .filter(|w| w.topic == format!("{n}.error") && meta_of(w, "command_id").as_deref() == Some(&dframe.id) && meta_of(w, "frame_id").is_none())
                .collect();
            if errs.len() != 1 {
                return Err(cmd(format!("invalid definition {} of {n} was reported {} times", dframe.id, errs.len())));
            }
            if frames.iter().any(|w| meta_of(w, "command_id").as_deref() == Some(&dframe.id) && meta_of(w, "frame_id").is_some()) {
                return Err(cmd(format!("invalid definition {} of {n} answered a call", dframe.id)));
            }
        }
    }
    if let Some(p) = nu.panics()?.first() {
        return Err(Fail::new(Class::Panic, format!("xs panicked: {p}")));
    }
    // whatever is observable with a hash has its content (C10's clause at the nu level: a
    // refused `.append` of bytes some stored frame shares must not take them away)
    for w in frames.iter().filter(|w| w.hash.is_some()) {
        let h = w.hash.as_ref().unwrap();
        let c = nu.content(h)?;
        checks += 1;
        if sha256_integrity(&c) != *h {
            return Err(Fail::new(Class::Cas, format!("content of {} ({}) does not hash to its frame's hash", w.id, w.topic)));
        }
    }
    // calls are never executed again after a restart: kill the server, start it on the same
    // store, wait until its commands loop is live, and count the stamped frames per call again
    // (stored frames only: the observer of the restarted server cannot have seen earlier ephemeral ones)
    let count = |fr: &[WFrame], id: &String| {
        fr.iter()
            .filter(|w| w.ttl != Some(WTtl::Ephemeral) && meta_of(w, "frame_id").as_deref() == Some(id))
            .count()
    };
    let before: Vec<(String, usize)> = calls.iter().map(|c| (c.frame.id.clone(), count(&frames, &c.frame.id))).collect();
    nu.restart()?;
    nu.ready_commands()?;
    std::thread::sleep(Duration::from_millis(20));
    let after = nu.frames()?;
    for (id, n) in &before {
        checks += 1;
        let now = count(&after, id);
        // (fewer is possible: results carrying head:N are evicted by later ones)
        if now > *n {
            return Err(cmd(format!(
                "call {id} had {n} stamped frames before the server was restarted and has {now} after — it was executed again"
            )));
        }
    }
    let mut labels = vec![];
    for (on, name) in [
        (overlapped, "overlapping-calls"),
        (redefine_between_calls, "redefine-between-calls"),
        (defs.iter().any(|d| d.1.broken != Broken::No), "broken-definition"),
        (defs.iter().any(|d| d.1.refused_append), "refused-explicit-append"),
        (ephemeral_calls, "ephemeral-call-frames"),
        (defs.iter().any(|d| d.1.stream_append > 0), "byte-stream-piped-into-append"),
        (calls.iter().any(|c| c.def.is_none()), "call-of-undefined"),
        (defs.iter().any(|d| d.1.env_bump), "env-leak-probe"),
    ] {
        if on {
            labels.push(name.to_string());
        }
    }
    Ok(CaseInfo {
        nontrivial: overlapped || redefine_between_calls,
        shape: hash64(format!("{:?}", case).as_bytes()),
        labels,
        known: vec![],
        checks,
    })
}

pub fn run(tier: Tier, seed: u64, replay: Option<&std::path::Path>) -> i32 {
    super::simple_run(
        "C19",
        tier,
        seed,
        replay,
        (3000, 50000),
        40,
        strategy,
        run_case,
        "sequences (1..9) of define / redefine / call over four command names in two contexts; definitions rendered from an AST: output = nothing, a single value, a list of 0..4 values of any JSON-able nu type, a 1..4 element stream, or a stream whose k-th element raises; optional explicit `.append` inside (exactly one `side.effect` frame per call, stamped with that call and the definition, content exact), optionally an explicit `.append` of the same bytes that the store refuses (unregistered context, inside `try`), environment mutation that detects state leaking between calls, sleep of 15/40 ms (so that 1..4 back-to-back calls overlap), custom suffix/ttl, a module; broken definitions (parse error, no `run` field) closures that raise at once, and closures that fail inside a built-in command given a malformed argument (`.cat --last-id \"not-an-id\"`). At the end every hash observed on any frame must be retrievable and hash to itself. Oracle per call: the frames stamped with its id are k results on <name><suffix> (configured ttl, JSON-equal content, in order) followed by exactly one <name>.complete, or exactly one <name>.error; all stamped with the latest valid definition that precedes the call, all in the caller's context; nothing for calls of undefined names; an invalid definition is reported once by <name>.error and never answers; after a kill + restart of the server no call has gained a stamped frame. Non-trivial = >= 2 overlapping calls or a redefine between two calls. Distinct by case hash.",
        vec![
            "calls are made in the context of the definition (what a same-named definition in another context does is C17's clause)".to_string(),
            "for errors raised lazily inside a stream only: one terminal event, stamps, context, and no more results than elements".to_string(),
        ],
        1,
    )
}
