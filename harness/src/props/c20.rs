//! C20: export then import reproduces the store.
//!
//! A source store is produced by a generated history; its frames (all-contexts
//! read) and contents are imported into a fresh target store in a generated
//! order with duplicates and unstorable frames mixed in; then the same
//! observation queries are run on both stores and compared directly
//! (differential oracle), in addition to the reference model checking each
//! store on its own.

use std::collections::{BTreeMap, BTreeSet};
use std::time::Instant;

use proptest::prelude::*;
use proptest::strategy::BoxedStrategy;
use serde::{Deserialize, Serialize};
use serde_json::json;

use crate::client::*;
use crate::gen::*;
use crate::hist::*;
use crate::model::*;
use crate::runner::*;
use crate::wire::*;

#[derive(Clone, Debug, Serialize, Deserialize)]
pub struct C20Case {
    pub source: HistCase,
    /// sort keys deciding the import order (missing keys = 0)
    pub order: Vec<u16>,
    /// positions (into the import list) whose frame is imported twice
    pub dups: Vec<u16>,
    /// positions at which an unstorable frame (NUL in topic) is attempted
    pub junk: Vec<u16>,
    pub reopen_target: bool,
    /// import through POST /cas + POST /import instead of the Store API
    pub http: bool,
    /// post each content right before its frame (else all contents first)
    pub content_late: bool,
    /// with `http`: frames are imported with `xs::client::import` instead of the raw client
    #[serde(default)]
    pub client: bool,
}

pub fn strategy() -> BoxedStrategy<C20Case> {
    let prof = profile("C20");
    (
        hist_strategy(&prof),
        proptest::collection::vec(any::<u16>(), 0..40),
        proptest::collection::vec(any::<u16>(), 0..4),
        proptest::collection::vec(any::<u16>(), 0..3),
        any::<bool>(),
        any::<bool>(),
        any::<bool>(),
        proptest::bool::weighted(0.4),
    )
        .prop_map(|(mut source, order, dups, junk, reopen_target, http, content_late, client)| {
            source.follower = false;
            source.access = Access::Api;
            C20Case {
                source,
                order,
                dups,
                junk,
                reopen_target,
                http,
                content_late,
                client: client && http,
            }
        })
        .boxed()
}

fn spec_of(w: &WFrame) -> FrameSpec {
    FrameSpec {
        topic: w.topic.clone(),
        ctx: w.ctx128(),
        id: Some(w.id128()),
        hash: w.hash.clone(),
        meta: w.meta.clone().map(MetaVal::J),
        ttl: w.ttl.clone(),
    }
}

fn diff(class: Class, msg: String) -> Fail {
    Fail::new(class, msg)
}

pub fn run_case(case: &C20Case) -> Result<CaseInfo, Fail> {
    let mut src = run_history_keep(&case.source)?;
    let res = run_with_source(case, &mut src);
    src.finish_ref();
    res
}

fn run_with_source(case: &C20Case, src: &mut Interp) -> Result<CaseInfo, Fail> {
    // ---- export -------------------------------------------------------------
    let frames = must("export read", src.ex().read_sync(None, None, None))?;
    let mut contents: BTreeMap<String, Vec<u8>> = BTreeMap::new();
    for w in &frames {
        if let Some(h) = &w.hash {
            if !contents.contains_key(h) {
                if let Ok(bytes) = src.ex().cas_read(h, false) {
                    contents.insert(h.clone(), bytes);
                }
            }
        }
    }
    let clock = src.model.clock;

    // ---- target -------------------------------------------------------------
    let access = if case.http { Access::Http } else { Access::Api };
    let mut tgt = Interp::start_with(Layout::Plain, true, access)?;
    tgt.via_client = case.client && case.http;
    let res = import_and_compare(case, src, &mut tgt, &frames, &contents, clock);
    tgt.finish_ref();
    res
}

fn post_content(tgt: &mut Interp, hash: &str, bytes: &[u8]) -> Check {
    if bytes.is_empty() && tgt.sock.is_some() {
        // POST /cas refuses an empty body by design; use the Store API for it
        let got = must("cas_insert", tgt.ex().cas_insert(bytes, "sync"))?;
        if got != hash {
            return Err(diff(Class::Cas, format!("content of {hash} hashed to {got} on the target")));
        }
        return Ok(());
    }
    let got = match tgt.sock.clone() {
        Some(sock) => match crate::httpx::cas_post(&sock, bytes, if bytes.len() % 2 == 1 { Some(777) } else { None }) {
            crate::httpx::HOut::Ok(h) => h,
            crate::httpx::HOut::Infra(e) => return Err(infra(format!("connect: {e}"))),
            other => return Err(diff(Class::Http, format!("POST /cas ({} bytes) answered {other:?}", bytes.len()))),
        },
        None => must("cas_insert", tgt.ex().cas_insert(bytes, "async"))?,
    };
    if got != hash {
        return Err(diff(
            Class::Cas,
            format!("content exported under {hash} was stored under {got} on the target ({} bytes)", bytes.len()),
        ));
    }
    Ok(())
}

fn import_and_compare(
    case: &C20Case,
    src: &mut Interp,
    tgt: &mut Interp,
    frames: &[WFrame],
    contents: &BTreeMap<String, Vec<u8>>,
    clock: u64,
) -> Result<CaseInfo, Fail> {
    tgt.model.set_clock(clock);
    must("clock", tgt.ex().clock(Some(clock)))?;
    // import order
    let mut idx: Vec<usize> = (0..frames.len()).collect();
    idx.sort_by_key(|i| (case.order.get(*i).cloned().unwrap_or(0), *i));
    let in_id_order = idx.windows(2).all(|w| w[0] < w[1]);
    let mut plan: Vec<(usize, bool)> = idx.iter().map(|i| (*i, false)).collect();
    for d in &case.dups {
        if let Some(k) = pick(*d, plan.len()) {
            let (i, _) = plan[k];
            let at = pick(d.wrapping_mul(31), plan.len() + 1).unwrap_or(0);
            plan.insert(at, (i, true));
        }
    }
    let junk_at: BTreeSet<usize> = case
        .junk
        .iter()
        .filter_map(|j| pick(*j, plan.len() + 1))
        .collect();

    if !case.content_late {
        for (h, b) in contents {
            post_content(tgt, h, b)?;
        }
    }
    let mut posted: BTreeSet<String> = BTreeSet::new();
    let mut staled: BTreeSet<usize> = BTreeSet::new();
    let mut stale_first = false;
    let mut junk_done = 0;
    for (pos, (i, _dup)) in plan.iter().enumerate() {
        if junk_at.contains(&pos) {
            junk_done += 1;
            let id = frames.get(*i).map(|w| w.id128().wrapping_add(7)).unwrap_or(77);
            tgt.do_import(FrameSpec {
                topic: format!("junk\0{pos}"),
                ctx: ZERO,
                id: Some(id),
                hash: None,
                meta: None,
                ttl: None,
            })?;
        }
        let w = &frames[*i];
        if case.content_late {
            if let Some(h) = &w.hash {
                if let Some(b) = contents.get(h) {
                    if posted.insert(h.clone()) {
                        post_content(tgt, h, b)?;
                    }
                }
            }
        }
        // now and then the target first receives an older version of the frame (same id, other
        // meta), as when a transfer is repeated after the source was corrected: what counts is
        // the frame imported last
        if staled.insert(*i) && case.order.get(*i).cloned().unwrap_or(1) % 4 == 0 && w.topic != "xs.context" {
            let mut old = spec_of(w);
            old.meta = Some(MetaVal::O(vec![("stale".into(), MetaVal::I(pos as i64))]));
            stale_first = true;
            tgt.do_import(old).map_err(|mut f| {
                f.msg = format!("import of an older version of frame {} ({:?}): {}", w.id, w.topic, f.msg);
                f
            })?;
        }
        tgt.do_import(spec_of(w)).map_err(|mut f| {
            f.msg = format!("import #{pos} of frame {} ({:?}): {}", w.id, w.topic, f.msg);
            f
        })?;
    }
    tgt.drain()?;
    if case.reopen_target {
        tgt.reopen()?;
    }
    // the target on its own, against its model (cross-path agreement, heads, follower silent)
    tgt.observe_all("target").map_err(|mut f| {
        f.msg = format!("target store after import: {}", f.msg);
        f
    })?;

    // ---- differential observation --------------------------------------------
    // the target's own xs.start frames (one per start of its API) are not part of the import
    let exported: BTreeSet<u128> = frames.iter().map(|w| w.id128()).collect();
    let own: BTreeSet<u128> = tgt
        .model
        .frames
        .values()
        .filter(|f| f.topic == "xs.start" && f.ctx == ZERO && !exported.contains(&f.id))
        .map(|f| f.id)
        .collect();
    let strip = |v: Vec<WFrame>| -> Vec<WFrame> { v.into_iter().filter(|w| !own.contains(&w.id128())).collect() };
    let s_all = must("read", src.ex().read_sync(None, None, None))?;
    let t_all = strip(must("read", tgt.ex().read_sync(None, None, None))?);
    if s_all != t_all {
        let s_ids: Vec<&String> = s_all.iter().map(|w| &w.id).collect();
        let t_ids: Vec<&String> = t_all.iter().map(|w| &w.id).collect();
        let first = s_all.iter().zip(t_all.iter()).find(|(a, b)| a != b);
        return Err(diff(
            Class::Import,
            format!(
                "all-contexts stream differs between source and target: first differing pair {:?}; source ids {:?}; target ids {:?}",
                first, s_ids, t_ids
            ),
        ));
    }
    let mut ctxs: BTreeSet<u128> = src.model.contexts_in_use();
    ctxs.extend(src.ctxs.iter().cloned());
    ctxs.insert(bogus_ctx(0));
    let mut checks = 1u64;
    for c in &ctxs {
        let a = must("read", src.ex().read_sync(None, None, Some(*c)))?;
        let b = strip(must("read", tgt.ex().read_sync(None, None, Some(*c)))?);
        checks += 1;
        if a != b {
            return Err(diff(
                Class::Import,
                format!("stream of context {} differs: source {:?} target {:?}", id_str(*c), a.iter().map(|w| &w.id).collect::<Vec<_>>(), b.iter().map(|w| &w.id).collect::<Vec<_>>()),
            ));
        }
    }
    let mut ids: Vec<u128> = src.known.iter().map(|k| k.id).collect();
    ids.extend(s_all.iter().map(|w| w.id128()));
    ids.sort();
    ids.dedup();
    for id in ids {
        let a = must("get", src.ex().get(id))?;
        let b = must("get", tgt.ex().get(id))?;
        checks += 1;
        if a != b {
            return Err(diff(Class::Import, format!("get({}) differs: source {:?} target {:?}", id_str(id), a, b)));
        }
    }
    let mut topics: BTreeSet<String> = src.topics_used.clone();
    for t in PREFIX_FAMILY {
        topics.insert(t.to_string());
    }
    for c in &ctxs {
        for t in &topics {
            if t.as_bytes().contains(&0) || (*c == ZERO && t == "xs.start") {
                continue;
            }
            let a = must("head", src.ex().head(t, *c))?;
            let b = must("head", tgt.ex().head(t, *c))?;
            checks += 1;
            if a != b {
                return Err(diff(
                    Class::Import,
                    format!("head({t:?}, {}) differs: source {:?} target {:?}", id_str(*c), a.map(|w| w.id), b.map(|w| w.id)),
                ));
            }
        }
    }
    for (h, bytes) in contents {
        // over HTTP the content is also fetched the way an exporting client does (GET /cas, the
        // streaming reader), not only through the library's whole-buffer read
        if let Some(sock) = tgt.sock.clone() {
            checks += 1;
            match crate::httpx::cas_get(&sock, h) {
                crate::httpx::HOut::Ok(Some(b)) if b == *bytes => {}
                crate::httpx::HOut::Infra(e) => return Err(infra(format!("connect: {e}"))),
                other => {
                    return Err(diff(
                        Class::Cas,
                        format!("content {h} ({} bytes) fetched from the target with GET /cas: {:?}", bytes.len(), match other {
                            crate::httpx::HOut::Ok(o) => format!("{:?} bytes", o.map(|b| b.len())),
                            o => format!("{o:?}"),
                        }),
                    ))
                }
            }
        }
        let got = tgt.ex().cas_read(h, true);
        checks += 1;
        match got {
            Ok(b) if b == *bytes => {}
            other => {
                return Err(diff(
                    Class::Cas,
                    format!("content {h} ({} bytes) reads back on the target as {:?}", bytes.len(), other.map(|b| b.len())),
                ))
            }
        }
    }
    // usable contexts, by probe appends on both stores (last: they mutate)
    let mut usable_diff = None;
    for c in &ctxs {
        let probe = FrameSpec {
            topic: "c20.probe".into(),
            ctx: *c,
            id: None,
            hash: None,
            meta: None,
            ttl: None,
        };
        let a = src.ex().append(&probe, None).is_ok();
        let b = tgt.ex().append(&probe, None).is_ok();
        checks += 1;
        if a != b {
            usable_diff = Some((*c, a, b));
            break;
        }
    }
    if let Some((c, a, b)) = usable_diff {
        return Err(diff(
            Class::ContextRule,
            format!("context {} accepts appends on the source: {a}, on the target: {b}", id_str(c)),
        ));
    }

    let n_ctx = s_all.iter().map(|w| w.ctx.clone()).collect::<BTreeSet<_>>().len();
    let kinds: Vec<&str> = case.source.ops.iter().map(|o| o.kind()).collect();
    let mut labels = vec![];
    for (on, name) in [
        (case.http, "import-via-http"),
        (case.http && case.client, "import-via-xs-client-library"),
        (stale_first, "older-version-imported-first"),
        (case.reopen_target, "target-reopened"),
        (!in_id_order, "import-order-not-id-order"),
        (!case.dups.is_empty() && !frames.is_empty(), "duplicate-imports"),
        (junk_done > 0, "unstorable-frames-mixed-in"),
        (!contents.is_empty(), "with-content"),
        (src.flags.had_remove, "source-had-remove"),
        (n_ctx >= 2, "two-or-more-contexts"),
        (frames.is_empty(), "empty-source"),
    ] {
        if on {
            labels.push(name.to_string());
        }
    }
    Ok(CaseInfo {
        nontrivial: n_ctx >= 2 && src.flags.had_remove && !in_id_order,
        shape: hash64(format!("{:?}|{:?}|{}|{}|{}", kinds, idx, case.http, case.reopen_target, case.dups.len()).as_bytes()),
        labels,
        known: tgt.known_hits.clone(),
        checks: checks + src.checks + tgt.checks,
    })
}

pub fn run(tier: Tier, seed: u64, replay: Option<&std::path::Path>) -> i32 {
    let started = Instant::now();
    let report_as = |c: Class| super::report_as("C20", c);
    if let Some(path) = replay {
        let case: C20Case = match load_replay(path) {
            Ok(c) => c,
            Err(e) => {
                eprintln!("cannot load replay: {e}");
                return 2;
            }
        };
        return match run_case(&case) {
            Ok(_) => {
                println!("replay {} passes", path.display());
                0
            }
            Err(f) if f.msg.starts_with(INFRA) => {
                eprintln!("INFRASTRUCTURE: {}", f.msg);
                2
            }
            Err(f) => {
                println!("failure class={:?}: {}", f.class, f.msg);
                println!("VIOLATION property={} replay={}", report_as(f.class), path.display());
                1
            }
        };
    }
    for path in replay_files("C20") {
        if let Ok(case) = load_replay::<C20Case>(&path) {
            if let Err(f) = run_case(&case) {
                if f.msg.starts_with(INFRA) {
                    eprintln!("INFRASTRUCTURE: {}", f.msg);
                    return 2;
                }
                println!("failure class={:?}: {}", f.class, f.msg);
                println!("VIOLATION property={} replay={}", report_as(f.class), path.display());
                return 1;
            }
        }
    }
    let cases = match tier {
        Tier::Quick => 2400,
        Tier::Thorough => 40_000,
    };
    let out = run_sharded("C20", seed, cases, 300, strategy, run_case);
    let report = Report {
        prop: "C20",
        tier,
        seed,
        level: "exploration",
        rule: "source store = generated history (<=30 ops: appends with content and all TTL kinds, registrations, imports, removes, clock, drains, reopen) settled; export = all-contexts read + content of every hash; import into a fresh store through the Store API or POST /cas + POST /import in a generated permutation with duplicate imports and NUL-topic frames mixed in, optional kill+reopen of the target; then the same queries (all stream, every context stream, get of every id, head for topics x contexts, content of every hash, probe appends per context) are run on both stores and compared directly. Non-trivial = >= 2 contexts in the export, a removed frame in the source history and an import order that is not id order. Distinct by (source op kinds, import order, path) hash.",
        assumptions: vec![
            "the target started through the HTTP API holds its own xs.start frame, which is excluded from the comparison".into(),
            "content for hashes the source never held (imported frames with foreign hashes) is not exported".into(),
            "POST /cas refuses an empty body by design; empty content is placed through the Store API".into(),
        ],
        extra: json!({}),
    };
    finish(&report, out, started, report_as)
}
