//! C01, C05, C07, C08, C09: the history engine with per-property weights and
//! non-triviality rules.

use std::time::Instant;

use serde_json::json;

use crate::hist::*;
use crate::runner::*;

pub struct HistProp {
    pub id: &'static str,
    pub quick: u32,
    pub thorough: u32,
    pub rule: &'static str,
}

pub fn spec(id: &str) -> Option<HistProp> {
    Some(match id {
        "C01" => HistProp {
            id: "C01",
            quick: 3200,
            thorough: 20_000,
            rule: "generated histories (<=40 ops over append/register/import/remove/clock/drain/reopen/read/get/head) run against a real store in an executor process and the reference model; non-trivial = the history has a remove, an observed expiry or an import before a read that uses last-id, limit or a context; distinct = distinct (layout, contexts, op-kind sequence) hash",
        },
        "C05" => HistProp {
            id: "C05",
            quick: 3200,
            thorough: 20_000,
            rule: "histories weighted to prefix-related topics (\"\", a, ab, abc, a\\x01, a\\xff...) in several contexts with NUL-topic appends/imports interleaved; at settled points and after reopen: get <=> all-stream <=> own-context stream for every id ever issued, head == last frame of exactly that topic for (topics used + one-byte extensions/truncations) x contexts; non-trivial = two stored topics where one is a byte-prefix of the other in one context and a remove/GC/import happened; distinct by op-kind sequence hash",
        },
        "C07" => HistProp {
            id: "C07",
            quick: 3200,
            thorough: 16_000,
            rule: "histories weighted to register / register-in-non-zero / remove / import of xs.context frames and appends into registered, never-registered, unregistered-again and frame-id contexts, with reopen (SIGKILL + new process) anywhere; oracle: append accepted <=> registration frame stored in the zero context; non-trivial = a reopen after a registration change (removal or import of a registration frame); distinct by op-kind sequence hash",
        },
        "C08" => HistProp {
            id: "C08",
            quick: 3200,
            thorough: 20_000,
            rule: "TTL-heavy histories on prefix-related topics in several contexts with the frozen clock placed at expiry-1ms / expiry / expiry+1ms and deferred drains; oracle: every frame the retention rules cannot have touched is returned by every path after every step; non-trivial = the collector removed something (expiry or head:K) while a prefix-related topic or the same topic in another context held frames; distinct by op-kind sequence hash",
        },
        "C09" => HistProp {
            id: "C09",
            quick: 3200,
            thorough: 20_000,
            rule: "TTL-heavy histories (ephemeral with a tail follower, time:N around the expiry instant, head:K with K 1..4 and u32::MAX); oracle: ephemeral delivered to the follower and never stored, expired frames never in a stream read and gone after read+drain, <=N frames (the newest) where the newest was appended with head:N; non-trivial = an expiry observed through read_sync and through read, or a head:K eviction with K>=2; distinct by op-kind sequence hash",
        },
        "C13" => HistProp {
            id: "C13",
            quick: 2400,
            thorough: 10_000,
            rule: "request sequences (<=25) over all HTTP routes written as raw HTTP/1.1 to the store's unix socket: valid appends (Content-Length and chunked bodies, xs-meta, ttl, context), imports, removes, lookups, heads, NDJSON and SSE reads with last-id/limit/context-id, interleaved with requests that must be refused (bad ids, TTLs, contexts, xs-meta payloads incl. raw non-ASCII bytes and invalid UTF-8 inside JSON strings, option strings, CAS hashes, import bodies, unknown methods, and sequences of such requests on one keep-alive connection); after every request the store is compared with the reference model through the Store API; non-trivial = a refused request between two succeeding mutations, or an SSE read, or a malformed xs-meta; distinct by op-kind sequence hash",
        },
        _ => return None,
    })
}

fn nontrivial(id: &str, case: &HistCase, fl: &Flags) -> bool {
    match id {
        "C01" => fl.scoped_read_after_mutation,
        "C05" => {
            // two stored topics, one a byte-prefix of the other, plus a mutation
            let topics: Vec<&String> = case
                .ops
                .iter()
                .filter_map(|o| match o {
                    Op::Append { topic, .. } => Some(topic),
                    Op::Import(ImportOp::Fresh { topic, .. }) => Some(topic),
                    _ => None,
                })
                .collect();
            let pair = topics
                .iter()
                .any(|a| topics.iter().any(|b| a != b && b.starts_with(a.as_str())));
            pair && (fl.had_remove || fl.had_eviction || fl.had_import)
        }
        "C07" => fl.reg_then_reopen_with_change,
        "C08" => fl.gc_removed_with_neighbour,
        "C09" => (fl.expiry_seen_sync && fl.expiry_seen_stream) || fl.eviction_k2,
        "C13" => {
            let mut seen_mut = false;
            let mut bad_after_mut = false;
            let mut sandwiched = false;
            let mut sse = false;
            let mut bad_meta = false;
            for o in &case.ops {
                match o {
                    Op::Append { .. } | Op::Register { .. } | Op::Import(_) | Op::Remove(_) => {
                        if bad_after_mut {
                            sandwiched = true;
                        }
                        seen_mut = true;
                    }
                    Op::Bad(b) => {
                        if seen_mut {
                            bad_after_mut = true;
                        }
                        if matches!(b, BadReq::BadMeta { .. }) {
                            bad_meta = true;
                        }
                    }
                    Op::Read { path: ReadPath::HttpSse, .. } => sse = true,
                    _ => {}
                }
            }
            sandwiched || sse || bad_meta
        }
        _ => false,
    }
}

pub fn run(id: &str, tier: Tier, seed: u64, replay: Option<&std::path::Path>) -> i32 {
    let hp = spec(id).expect("history property");
    let prof = profile(id);
    let started = Instant::now();
    let test = |case: &HistCase| -> Result<CaseInfo, crate::model::Fail> {
        let (mut info, flags) = run_history(case).map_err(|mut f| {
            // C07's own clauses: registration frames are kept (forever) and are what makes a
            // context usable; a refused append leaves no broadcast behind
            if hp.id == "C07"
                && (f.msg.contains("(\"xs.context\")") || f.msg.contains("that no accepted append produced"))
            {
                f.class = crate::model::Class::ContextRule;
            }
            f
        })?;
        info.nontrivial = nontrivial(hp.id, case, &flags);
        Ok(info)
    };
    if let Some(path) = replay {
        let case: HistCase = match load_replay(path) {
            Ok(c) => c,
            Err(e) => {
                eprintln!("cannot load replay: {e}");
                return 2;
            }
        };
        return match test(&case) {
            Ok(_) => {
                println!("replay {} passes", path.display());
                0
            }
            Err(f) if f.msg.starts_with(INFRA) => {
                eprintln!("INFRASTRUCTURE: {}", f.msg);
                2
            }
            Err(f) => {
                println!("failure class={:?}: {}", f.class, f.msg);
                println!(
                    "VIOLATION property={} replay={}",
                    super::report_as(id, f.class),
                    path.display()
                );
                1
            }
        };
    }
    // replay tier
    for path in replay_files(id) {
        if let Ok(case) = load_replay::<HistCase>(&path) {
            if let Err(f) = test(&case) {
                if f.msg.starts_with(INFRA) {
                    eprintln!("INFRASTRUCTURE: {}", f.msg);
                    return 2;
                }
                println!("failure class={:?}: {}", f.class, f.msg);
                println!(
                    "VIOLATION property={} replay={}",
                    super::report_as(id, f.class),
                    path.display()
                );
                return 1;
            }
        }
    }
    let cases = match tier {
        Tier::Quick => hp.quick,
        Tier::Thorough => hp.thorough,
    };
    let mut out = run_sharded(id, seed, cases, 300, || hist_strategy(&prof), test);
    // the same histories through the HTTP routes (GET /, GET /{id}, GET /head, POST, DELETE,
    // POST /import) for the properties whose observation points include them
    let mut http_cases = 0;
    if id != "C13" && out.failure.is_none() && out.infra.is_none() {
        let mut hp2 = prof.clone();
        hp2.access = Access::Http;
        hp2.topics = TopicMode::HttpSafe;
        hp2.max_ops = hp2.max_ops.min(25);
        http_cases = cases / 8;
        let o2 = run_sharded(&format!("{id}-http"), seed, http_cases, 300, || hist_strategy(&hp2), test);
        out.stats.evaluations += o2.stats.evaluations;
        out.stats.nontrivial += o2.stats.nontrivial;
        out.stats.checks += o2.stats.checks;
        out.stats.shapes.extend(o2.stats.shapes);
        for (k, v) in o2.stats.labels {
            *out.stats.labels.entry(k).or_insert(0) += v;
        }
        for (k, v) in o2.stats.known {
            *out.stats.known.entry(k).or_insert(0) += v;
        }
        out.stats.samples.extend(o2.stats.samples.into_iter().take(1));
        out.failure = o2.failure;
        out.infra = o2.infra;
    }
    let report = Report {
        prop: id,
        tier,
        seed,
        level: "exploration",
        rule: &format!("{}; one case in nine runs the same operations through the HTTP routes (except C13, which is HTTP throughout)", hp.rule),
        assumptions: vec![
            "TTL expiry is driven by the frozen virtual clock of the `verif` feature (ids keep real timestamps)".into(),
            "imports that reuse a stored id with different content and imports of ephemeral frames are outside the generated domain".into(),
            "frames whose retention is decided asynchronously (GC thread) are three-valued until a settled point; checks with an undetermined frame in scope are counted under labels.had-three-valued-check".into(),
            "reopen = SIGKILL of the executor process and a new process on the same directory".into(),
        ],
        extra: json!({"generator_profile": prof.name, "cases_through_http_api": http_cases}),
    };
    finish(&report, out, started, |c| super::report_as(id, c))
}
