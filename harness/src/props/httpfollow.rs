//! A following `GET /` over the executor's own API socket, consumed incrementally by the
//! driver and compared with the store's stream at a quiescent moment. Used by C03
//! (completeness, order and the threshold marker across history -> live, in the NDJSON and
//! the SSE rendering) and by C11 (limit against heartbeats over HTTP).

use std::time::{Duration, Instant};

use crate::client::*;
use crate::hist::must;
use crate::model::*;
use crate::wire::*;

fn fspec(topic: &str, ctx: u128, ttl: Option<WTtl>) -> FrameSpec {
    FrameSpec {
        topic: topic.to_string(),
        ctx,
        id: None,
        hash: None,
        meta: None,
        ttl,
    }
}

fn is_marker(w: &WFrame) -> bool {
    w.topic == "xs.threshold" || w.topic == "xs.pulse"
}

fn wait_until(
    hf: &crate::httpx::HttpFollower,
    secs: u64,
    what: &str,
    mut pred: impl FnMut(&[WFrame], bool) -> bool,
) -> Result<(Vec<WFrame>, bool, bool), Fail> {
    let deadline = Instant::now() + Duration::from_secs(secs);
    loop {
        let (fr, closed, err) = hf.poll();
        if let Some(e) = err {
            return Err(Fail::new(Class::Http, format!("following GET / ({what}): {e}")));
        }
        if pred(&fr, closed) {
            return Ok((fr, closed, true));
        }
        if Instant::now() > deadline {
            return Ok((fr, closed, false));
        }
        std::thread::sleep(Duration::from_millis(2));
    }
}

/// `opts.follow` must be Some. `append_ctx`: a context inside the reader's scope for the frames
/// appended during the check. Returns the number of oracle checks made.
pub fn check(exec: &mut Exec, opts: &ROpts, sse: bool, append_ctx: u128) -> Result<u64, Fail> {
    let render = if sse { "sse" } else { "ndjson" };
    let sock = must("serve_api", exec.serve_api())?;
    // (serving appends xs.start to the zero context: part of the history from here on)
    let hist: Vec<WFrame> = if opts.tail {
        vec![]
    } else {
        must("read_sync", exec.read_sync(opts.last_id, None, opts.ctx))?
    };
    // (the SSE variant also spells its switches as bare flags: `?follow&tail`)
    let hf = crate::httpx::follow_start_spelled(&sock, opts, sse, sse)
        .map_err(|e| Fail::new(Class::Http, format!("following GET / ({render}, {opts:?}): {e}")))?;
    let mut checks = 0u64;
    let what = format!("{render}, {opts:?}");
    let ids = |fr: &[WFrame]| -> Vec<String> { fr.iter().filter(|w| !is_marker(w)).map(|w| w.id.clone()).collect() };
    let order = |fr: &[WFrame]| -> Check {
        let mut prev: Option<u128> = None;
        for w in fr.iter().filter(|w| !is_marker(w)) {
            if let Some(p) = prev {
                if w.id128() <= p {
                    return Err(Fail::new(Class::Order, format!("following GET / ({what}) delivered {} after {}", w.id, id_str(p))));
                }
            }
            prev = Some(w.id128());
        }
        Ok(())
    };
    match opts.limit {
        None => {
            // history, then exactly one threshold (none for tail), then live frames
            let want_thr = if opts.tail { 0 } else { 1 };
            let (fr, closed, ok) = wait_until(&hf, 10, &what, |fr, closed| {
                closed || (fr.iter().filter(|w| !is_marker(w)).count() >= hist.len() && fr.iter().filter(|w| w.topic == "xs.threshold").count() >= want_thr)
            })?;
            checks += 1;
            if closed {
                return Err(Fail::new(Class::Follow, format!("following GET / ({what}) ended by itself after {} frames", fr.len())));
            }
            let want: Vec<String> = hist.iter().map(|w| w.id.clone()).collect();
            if !ok || ids(&fr) != want {
                return Err(Fail::new(
                    Class::Follow,
                    format!(
                        "following GET / ({what}) delivered {:?} (markers: {:?}) within 10 s; the stream holds {:?} after its start position and {want_thr} xs.threshold is due",
                        ids(&fr),
                        fr.iter().filter(|w| is_marker(w)).map(|w| &w.topic).collect::<Vec<_>>(),
                        want
                    ),
                ));
            }
            if want_thr == 1 {
                let pos = fr.iter().position(|w| w.topic == "xs.threshold").unwrap();
                if fr[..pos].iter().filter(|w| !is_marker(w)).count() != hist.len() {
                    return Err(Fail::new(
                        Class::Follow,
                        format!("following GET / ({what}): xs.threshold came after {} of the {} frames that existed when the read began", fr[..pos].iter().filter(|w| !is_marker(w)).count(), hist.len()),
                    ));
                }
            }
            // live: a stored and an ephemeral frame in scope, both delivered, in order, after the marker
            let a = must("append", exec.append(&fspec("live.http", append_ctx, None), None))?;
            let b = must("append", exec.append(&fspec("live.http", append_ctx, Some(WTtl::Ephemeral)), None))?;
            let (fr, closed, ok) = wait_until(&hf, 10, &what, |fr, closed| closed || fr.iter().any(|w| w.id == b.id))?;
            checks += 1;
            order(&fr)?;
            let mut want2 = want.clone();
            want2.push(a.id.clone());
            want2.push(b.id.clone());
            if closed || !ok || ids(&fr) != want2 {
                return Err(Fail::new(
                    Class::Follow,
                    format!("following GET / ({what}): after two live appends ({}, ephemeral {}) the stream carries {:?}, expected {:?} (closed={closed})", a.id, b.id, ids(&fr), want2),
                ));
            }
            // a head-follow opened on a topic that has no frame yet delivers what is appended to it
            let req = crate::http::Req::new("GET", &format!("/head/fresh.topic?follow=true&context={}", id_str(append_ctx)));
            let mut conn = crate::http::Conn::open(&sock).map_err(|e| Fail::new(Class::Http, format!("head-follow: {e:?}")))?;
            conn.send(&req.to_bytes()).ok();
            let (status, headers) = conn
                .read_head(Instant::now() + Duration::from_secs(20))
                .map_err(|e| Fail::new(Class::Http, format!("GET /head/fresh.topic?follow: {e:?}")))?;
            checks += 1;
            if status != 200 {
                return Err(Fail::new(Class::Follow, format!("GET /head/<topic without frames>?follow answered {status}: the follower never gets what is appended afterwards")));
            }
            let h1 = must("append", exec.append(&fspec("fresh.topic", append_ctx, None), None))?;
            let h2 = must("append", exec.append(&fspec("fresh.topic", append_ctx, Some(WTtl::Ephemeral)), None))?;
            let mut acc = Vec::new();
            let chunked = crate::http::is_chunked(&headers);
            let ended = conn
                .read_stream(chunked, Duration::from_secs(10), |b| String::from_utf8_lossy(b).contains(&h2.id), &mut acc)
                .map_err(|e| Fail::new(Class::Http, format!("head-follow stream: {e:?}")))?;
            let text = String::from_utf8_lossy(&acc).to_string();
            let (p1, p2) = (text.find(&h1.id), text.find(&h2.id));
            if ended || p1.is_none() || p2.is_none() || p1 > p2 {
                return Err(Fail::new(
                    Class::Follow,
                    format!("head-follow on a topic that had no frame: appended {} then {} (ephemeral), the stream carried {:?} (ended={ended})", h1.id, h2.id, text.chars().take(300).collect::<String>()),
                ));
            }
            if fr.iter().filter(|w| w.topic == "xs.threshold").count() != want_thr {
                return Err(Fail::new(Class::Follow, format!("following GET / ({what}) carried {} xs.threshold markers", fr.iter().filter(|w| w.topic == "xs.threshold").count())));
            }
        }
        Some(n) => {
            let h = hist.len();
            let mut want: Vec<String> = hist.iter().take(n).map(|w| w.id.clone()).collect();
            if h < n {
                // the stream must stay open over (at least two) heartbeats without counting them
                let beat = opts.follow.unwrap_or(0);
                if beat > 0 {
                    let (fr, closed, _) = wait_until(&hf, 10, &what, |fr, closed| closed || fr.iter().filter(|w| w.topic == "xs.pulse").count() >= 2)?;
                    checks += 1;
                    if closed {
                        return Err(Fail::new(
                            Class::Limit,
                            format!("following GET / ({what}) ended after {} of {n} frames (and {} heartbeats): synthetic frames count against the limit", ids(&fr).len(), fr.iter().filter(|w| w.topic == "xs.pulse").count()),
                        ));
                    }
                }
                for _ in h..n {
                    want.push(must("append", exec.append(&fspec("live.http", append_ctx, None), None))?.id);
                }
                // one more than the limit admits
                let _extra = must("append", exec.append(&fspec("live.http", append_ctx, None), None))?;
            }
            let (fr, closed, _) = wait_until(&hf, 10, &what, |_, closed| closed)?;
            checks += 1;
            order(&fr)?;
            if !closed || ids(&fr) != want {
                return Err(Fail::new(
                    Class::Limit,
                    format!("following GET / ({what}) delivered {:?} (closed={closed}); exactly the first {n} matching frames {:?} and then the end of the stream are due", ids(&fr), want),
                ));
            }
        }
    }
    Ok(checks)
}
