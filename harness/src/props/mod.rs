//! One entry point per property.

pub mod c02;
pub mod c03;
pub mod c04;
pub mod c06;
pub mod c10;
pub mod c11;
pub mod c12;
pub mod c14;
pub mod c15;
pub mod c16;
pub mod c17;
pub mod c18;
pub mod c19;
pub mod c20;
pub mod histprops;
pub mod httpfollow;

use crate::model::Class;

/// Which listed properties a failure class violates (first = primary).
pub fn props_of(class: Class) -> &'static [&'static str] {
    match class {
        Class::Order => &["C01", "C02"],
        Class::Missing => &["C08", "C01", "C05"],
        Class::ExtraRemoved => &["C01", "C05"],
        Class::ExtraExpired => &["C09", "C01"],
        Class::ExtraEvicted => &["C09", "C01"],
        Class::ExtraEphemeral => &["C09", "C01"],
        Class::ExtraUnknown => &["C01", "C07", "C05"],
        Class::ScopeContext => &["C06", "C01"],
        Class::ScopeLastId => &["C01"],
        Class::Limit => &["C01", "C11"],
        Class::Field => &["C01", "C12"],
        Class::CrossPath => &["C05", "C01"],
        Class::Head => &["C05"],
        Class::ContextRule => &["C07"],
        Class::NulTopic => &["C05"],
        Class::IdOrder => &["C01", "C02"],
        Class::Import => &["C20"],
        Class::Follow => &["C03", "C09"],
        Class::Panic => &["C12", "C01"],
        Class::Http => &["C13"],
        Class::Cas => &["C10"],
    }
}

/// The property to report a failure under when the check for `running` found it.
pub fn report_as(running: &str, class: Class) -> String {
    let ps = props_of(class);
    // composite properties: their statement covers everything their check compares
    // (HTTP == store operation; import target == source; content; isolation)
    if ["C02", "C03", "C04", "C06", "C10", "C11", "C12", "C13", "C14", "C15", "C16", "C17", "C18", "C19", "C20"].contains(&running) {
        return running.to_string();
    }
    if ps.contains(&running) {
        running.to_string()
    } else {
        ps[0].to_string()
    }
}

/// The common shape of a check: replay file / replay tier / sharded generation /
/// evidence. `repeats` = how often a replay is re-run (schedule-dependent cases).
#[allow(clippy::too_many_arguments)]
pub fn simple_run<T>(
    prop: &'static str,
    tier: crate::runner::Tier,
    seed: u64,
    replay: Option<&std::path::Path>,
    cases: (u32, u32),
    shrink_iters: u32,
    strategy: fn() -> proptest::strategy::BoxedStrategy<T>,
    run_case: fn(&T) -> Result<crate::runner::CaseInfo, crate::model::Fail>,
    rule: &str,
    assumptions: Vec<String>,
    repeats: usize,
) -> i32
where
    T: std::fmt::Debug + Clone + serde::Serialize + serde::de::DeserializeOwned + Send + 'static,
{
    use crate::runner::*;
    let started = std::time::Instant::now();
    let rep = |case: &T| -> Result<CaseInfo, crate::model::Fail> {
        let mut last = run_case(case)?;
        for _ in 1..repeats.max(1) {
            last = run_case(case)?;
        }
        Ok(last)
    };
    let verdict = |path: &std::path::Path, r: Result<CaseInfo, crate::model::Fail>, quiet_ok: bool| -> Option<i32> {
        match r {
            Ok(_) => {
                if !quiet_ok {
                    println!("replay {} passes", path.display());
                }
                None
            }
            Err(f) if f.msg.starts_with(INFRA) => {
                eprintln!("INFRASTRUCTURE: {}", f.msg);
                Some(2)
            }
            Err(f) => {
                println!("failure class={:?}: {}", f.class, f.msg);
                println!("VIOLATION property={} replay={}", report_as(prop, f.class), path.display());
                Some(1)
            }
        }
    };
    if let Some(path) = replay {
        let case: T = match load_replay(path) {
            Ok(c) => c,
            Err(e) => {
                eprintln!("cannot load replay: {e}");
                return 2;
            }
        };
        return verdict(path, rep(&case), false).unwrap_or(0);
    }
    for path in replay_files(prop) {
        if let Ok(case) = load_replay::<T>(&path) {
            if let Some(code) = verdict(&path, rep(&case), true) {
                return code;
            }
        }
    }
    let n = match tier {
        Tier::Quick => cases.0,
        Tier::Thorough => cases.1,
    };
    let out = run_sharded(prop, seed, n, shrink_iters, strategy, run_case);
    let report = Report {
        prop,
        tier,
        seed,
        level: "exploration",
        rule,
        assumptions,
        extra: serde_json::json!({}),
    };
    finish(&report, out, started, |c| report_as(prop, c))
}
