//! One entry point per property.

pub mod c02;
pub mod c03;
pub mod c04;
pub mod c06;
pub mod c10;
pub mod c11;
pub mod c12;
pub mod c20;
pub mod histprops;

use crate::model::Class;

/// Which listed properties a failure class violates (first = primary).
pub fn props_of(class: Class) -> &'static [&'static str] {
    match class {
        Class::Order => &["C01", "C02"],
        Class::Missing => &["C08", "C01", "C05"],
        Class::ExtraRemoved => &["C01", "C05"],
        Class::ExtraExpired => &["C09", "C01"],
        Class::ExtraEvicted => &["C09", "C01"],
        Class::ExtraEphemeral => &["C09", "C01"],
        Class::ExtraUnknown => &["C01", "C07", "C05"],
        Class::ScopeContext => &["C06", "C01"],
        Class::ScopeLastId => &["C01"],
        Class::Limit => &["C01", "C11"],
        Class::Field => &["C01", "C12"],
        Class::CrossPath => &["C05", "C01"],
        Class::Head => &["C05"],
        Class::ContextRule => &["C07"],
        Class::NulTopic => &["C05"],
        Class::IdOrder => &["C01", "C02"],
        Class::Import => &["C20"],
        Class::Follow => &["C03", "C09"],
        Class::Panic => &["C12", "C01"],
        Class::Http => &["C13"],
        Class::Cas => &["C10"],
    }
}

/// The property to report a failure under when the check for `running` found it.
pub fn report_as(running: &str, class: Class) -> String {
    let ps = props_of(class);
    // composite properties: their statement covers everything their check compares
    // (HTTP == store operation; import target == source; content; isolation)
    if ["C04", "C06", "C10", "C12", "C13", "C20"].contains(&running) && !matches!(class, Class::Panic) {
        return running.to_string();
    }
    if ps.contains(&running) {
        running.to_string()
    } else {
        ps[0].to_string()
    }
}
