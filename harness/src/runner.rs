//! Sharded proptest runner, evidence writer, known-findings file, replay files.

use std::collections::{BTreeMap, BTreeSet};
use std::fmt::Debug;
use std::path::{Path, PathBuf};
use std::sync::atomic::{AtomicBool, AtomicU64, Ordering};
use std::sync::Mutex;
use std::time::Instant;

use proptest::strategy::BoxedStrategy;
use proptest::test_runner::{Config, RngAlgorithm, TestCaseError, TestError, TestRng, TestRunner};
use serde::de::DeserializeOwned;
use serde::Serialize;
use serde_json::{json, Value};

use crate::model::{Class, Fail};

pub const LOGICAL_SHARDS: usize = 16;

#[derive(Clone, Copy, PartialEq, Eq, Debug)]
pub enum Tier {
    Quick,
    Thorough,
}

impl Tier {
    pub fn name(&self) -> &'static str {
        match self {
            Tier::Quick => "quick",
            Tier::Thorough => "thorough",
        }
    }
}

pub fn verif_root() -> PathBuf {
    std::env::var_os("XSV_ROOT")
        .map(PathBuf::from)
        .unwrap_or_else(|| PathBuf::from("/verif"))
}

/// What one executed case reports back (only counted while no failure has been
/// seen, so shrinking re-runs do not inflate the numbers).
#[derive(Clone, Debug, Default)]
pub struct CaseInfo {
    pub nontrivial: bool,
    /// hash of the case's shape (op kinds / labels), for distinctness
    pub shape: u64,
    pub labels: Vec<String>,
    /// known-finding signatures this case ran into (tolerated by the oracle)
    pub known: Vec<String>,
    /// additional oracle evaluations inside the case (for reporting)
    pub checks: u64,
}

#[derive(Default)]
pub struct Stats {
    pub evaluations: u64,
    pub nontrivial: u64,
    pub shapes: BTreeSet<u64>,
    pub labels: BTreeMap<String, u64>,
    pub known: BTreeMap<String, u64>,
    pub checks: u64,
    pub samples: Vec<Value>,
    pub notes: Vec<String>,
}

impl Stats {
    pub fn absorb(&mut self, info: &CaseInfo, sample: impl FnOnce() -> Value) {
        self.evaluations += 1;
        self.checks += info.checks;
        for l in &info.labels {
            *self.labels.entry(l.clone()).or_insert(0) += 1;
        }
        for k in &info.known {
            *self.known.entry(k.clone()).or_insert(0) += 1;
        }
        if info.nontrivial {
            self.nontrivial += 1;
            let fresh = self.shapes.insert(info.shape);
            if fresh && self.samples.len() < 4 {
                self.samples.push(sample());
            }
        }
    }
}

pub struct Failure {
    pub case: Value,
    pub fail: Fail,
    pub shard: usize,
}

pub struct Outcome {
    pub stats: Stats,
    pub failure: Option<Failure>,
    /// infrastructure trouble (executor could not be started ...): exit 2
    pub infra: Option<String>,
}

pub fn shard_seed(seed: u64, prop: &str, shard: usize) -> [u8; 32] {
    use sha2::{Digest, Sha256};
    let mut h = Sha256::new();
    h.update(b"xsverif-seed");
    h.update(seed.to_le_bytes());
    h.update(prop.as_bytes());
    h.update((shard as u64).to_le_bytes());
    h.finalize().into()
}

pub fn hash64(bytes: &[u8]) -> u64 {
    use sha2::{Digest, Sha256};
    let d = Sha256::digest(bytes);
    u64::from_le_bytes(d[..8].try_into().unwrap())
}

/// Marker error message used by tests to signal an infrastructure problem
/// (never a violation).
pub const INFRA: &str = "XSV-INFRA:";

pub fn threads() -> usize {
    std::env::var("XSV_THREADS")
        .ok()
        .and_then(|s| s.parse().ok())
        .unwrap_or_else(|| {
            std::thread::available_parallelism()
                .map(|n| n.get())
                .unwrap_or(4)
        })
        .clamp(1, LOGICAL_SHARDS)
}

/// Run `cases` generated cases split over 16 logical shards (independent of
/// the core count, so a seed means the same cases everywhere).
pub fn run_sharded<T, S, F>(
    prop: &str,
    seed: u64,
    cases: u32,
    max_shrink_iters: u32,
    strategy: S,
    test: F,
) -> Outcome
where
    T: Debug + Clone + Serialize + Send + 'static,
    S: Fn() -> BoxedStrategy<T> + Sync,
    F: Fn(&T) -> Result<CaseInfo, Fail> + Sync,
{
    let stats = Mutex::new(Stats::default());
    let failure: Mutex<Option<Failure>> = Mutex::new(None);
    let infra: Mutex<Option<String>> = Mutex::new(None);
    let stop = AtomicBool::new(false);
    let next_shard = AtomicU64::new(0);
    let nthreads = threads();
    let per = cases / LOGICAL_SHARDS as u32;
    let extra = cases % LOGICAL_SHARDS as u32;

    std::thread::scope(|scope| {
        for _ in 0..nthreads {
            scope.spawn(|| loop {
                let shard = next_shard.fetch_add(1, Ordering::SeqCst) as usize;
                if shard >= LOGICAL_SHARDS || stop.load(Ordering::SeqCst) {
                    return;
                }
                let n = per + if (shard as u32) < extra { 1 } else { 0 };
                if n == 0 {
                    continue;
                }
                let config = Config {
                    cases: n,
                    max_shrink_iters,
                    failure_persistence: None,
                    ..Config::default()
                };
                let rng = TestRng::from_seed(RngAlgorithm::ChaCha, &shard_seed(seed, prop, shard));
                let mut runner = TestRunner::new_with_rng(config, rng);
                let failed_here = std::cell::Cell::new(false);
                // shrinking is bounded by wall-clock as well (failing cases that wait for a
                // delivery that never comes take seconds each): after the budget every further
                // candidate counts as passing, which ends the shrink at the smallest failure so far
                let failed_at: std::cell::Cell<Option<Instant>> = std::cell::Cell::new(None);
                let shrink_budget = std::time::Duration::from_secs(
                    std::env::var("XSV_SHRINK_SECS").ok().and_then(|v| v.parse().ok()).unwrap_or(90),
                );
                let last_fail: std::cell::RefCell<Option<Fail>> = std::cell::RefCell::new(None);
                let res = std::panic::catch_unwind(std::panic::AssertUnwindSafe(|| {
                    runner.run(&strategy(), |case| {
                        if !failed_here.get() && stop.load(Ordering::SeqCst) {
                            return Ok(());
                        }
                        if let Some(t) = failed_at.get() {
                            if t.elapsed() > shrink_budget {
                                return Ok(());
                            }
                        }
                        match test(&case) {
                            Ok(info) => {
                                if !failed_here.get() {
                                    stats
                                        .lock()
                                        .unwrap()
                                        .absorb(&info, || serde_json::to_value(&case).unwrap());
                                }
                                Ok(())
                            }
                            Err(f) => {
                                if f.msg.starts_with(INFRA) {
                                    // do not let proptest shrink an infrastructure problem
                                    *infra.lock().unwrap() = Some(f.msg.clone());
                                    stop.store(true, Ordering::SeqCst);
                                    return Ok(());
                                }
                                if !failed_here.get() {
                                    stats.lock().unwrap().evaluations += 1;
                                }
                                failed_here.set(true);
                                if failed_at.get().is_none() {
                                    failed_at.set(Some(Instant::now()));
                                }
                                stop.store(true, Ordering::SeqCst);
                                *last_fail.borrow_mut() = Some(f.clone());
                                Err(TestCaseError::fail(f.msg))
                            }
                        }
                    })
                }));
                match res {
                    Ok(Ok(())) => {}
                    Ok(Err(TestError::Fail(reason, value))) => {
                        // re-derive the failure class on the shrunk value
                        let mut fail = None;
                        for _ in 0..3 {
                            if let Err(f) = test(&value) {
                                if !f.msg.starts_with(INFRA) {
                                    fail = Some(f);
                                    break;
                                }
                            }
                        }
                        let fail = fail.or_else(|| last_fail.borrow().clone()).unwrap_or(Fail {
                            class: Class::Panic,
                            msg: reason.message().to_string(),
                        });
                        let mut g = failure.lock().unwrap();
                        if g.is_none() {
                            *g = Some(Failure {
                                case: serde_json::to_value(&value).unwrap(),
                                fail,
                                shard,
                            });
                        }
                        return;
                    }
                    Ok(Err(TestError::Abort(reason))) => {
                        *infra.lock().unwrap() =
                            Some(format!("proptest aborted: {}", reason.message()));
                        stop.store(true, Ordering::SeqCst);
                        return;
                    }
                    Err(p) => {
                        let msg = p
                            .downcast_ref::<String>()
                            .cloned()
                            .or_else(|| p.downcast_ref::<&str>().map(|s| s.to_string()))
                            .unwrap_or_else(|| "panic in driver".into());
                        *infra.lock().unwrap() = Some(format!("driver panic: {msg}"));
                        stop.store(true, Ordering::SeqCst);
                        return;
                    }
                }
            });
        }
    });

    Outcome {
        stats: stats.into_inner().unwrap(),
        failure: failure.into_inner().unwrap(),
        infra: infra.into_inner().unwrap(),
    }
}

// ---------------------------------------------------------------------------
// known findings
// ---------------------------------------------------------------------------

#[derive(Clone, Debug, serde::Deserialize)]
pub struct Finding {
    pub property: String,
    pub signature: String,
    pub what: String,
}

#[derive(Clone, Debug, Default, serde::Deserialize)]
pub struct KnownFindings {
    #[serde(default)]
    pub findings: Vec<Finding>,
    #[serde(default)]
    pub fixed: Vec<String>,
}

impl KnownFindings {
    pub fn load() -> KnownFindings {
        let p = verif_root().join("known_findings.json");
        match std::fs::read_to_string(&p) {
            Ok(s) => serde_json::from_str(&s).unwrap_or_else(|e| {
                eprintln!("known_findings.json does not parse: {e}");
                std::process::exit(2)
            }),
            Err(_) => KnownFindings::default(),
        }
    }
    pub fn lists(&self, signature: &str) -> bool {
        self.findings.iter().any(|f| f.signature == signature)
    }
    pub fn for_property(&self, prop: &str) -> Vec<&Finding> {
        self.findings.iter().filter(|f| f.property == prop).collect()
    }
}

static KNOWN: std::sync::OnceLock<KnownFindings> = std::sync::OnceLock::new();

pub fn known() -> &'static KnownFindings {
    KNOWN.get_or_init(KnownFindings::load)
}

// ---------------------------------------------------------------------------
// evidence, replay
// ---------------------------------------------------------------------------

pub struct Report<'a> {
    pub prop: &'a str,
    pub tier: Tier,
    pub seed: u64,
    pub level: &'a str,
    pub rule: &'a str,
    pub assumptions: Vec<String>,
    pub extra: Value,
}

pub fn write_evidence(r: &Report, stats: &Stats, violations: u32, wall_s: f64) {
    let dir = verif_root().join("evidence");
    let _ = std::fs::create_dir_all(&dir);
    let mut coverage = json!({
        "evaluations": stats.evaluations,
        "nontrivial": stats.nontrivial,
        "distinct_nontrivial": stats.shapes.len(),
        "rule": r.rule,
        "samples": stats.samples,
        "oracle_checks": stats.checks,
        "labels": stats.labels,
        "excluded_known": stats.known,
        "notes": stats.notes,
    });
    if let (Some(c), Some(e)) = (coverage.as_object_mut(), r.extra.as_object()) {
        for (k, v) in e {
            c.insert(k.clone(), v.clone());
        }
    }
    let ev = json!({
        "property_id": r.prop,
        "tier": r.tier.name(),
        "seed": r.seed,
        "level": r.level,
        "coverage": coverage,
        "assumptions": r.assumptions,
        "wall_s": wall_s,
        "violations": violations,
    });
    let path = dir.join(format!("{}.json", r.prop));
    std::fs::write(&path, serde_json::to_string_pretty(&ev).unwrap()).expect("write evidence");
}

pub fn write_replay(prop: &str, case: &Value, fail: &Fail, seed: u64) -> PathBuf {
    let dir = verif_root().join("replays").join(prop);
    let _ = std::fs::create_dir_all(&dir);
    let body = json!({
        "property": prop,
        "class": format!("{:?}", fail.class),
        "message": fail.msg,
        "seed": seed,
        "case": case,
    });
    let text = serde_json::to_string_pretty(&body).unwrap();
    let name = format!("{}-{:016x}.json", prop, hash64(case.to_string().as_bytes()));
    let path = dir.join(name);
    std::fs::write(&path, text).expect("write replay");
    path
}

pub fn load_replay<T: DeserializeOwned>(path: &Path) -> Result<T, String> {
    let s = std::fs::read_to_string(path).map_err(|e| format!("{}: {e}", path.display()))?;
    let v: Value = serde_json::from_str(&s).map_err(|e| format!("{}: {e}", path.display()))?;
    let case = v.get("case").cloned().unwrap_or(v);
    serde_json::from_value(case).map_err(|e| format!("{}: {e}", path.display()))
}

pub fn replay_files(prop: &str) -> Vec<PathBuf> {
    let dir = verif_root().join("replays").join(prop);
    let mut v: Vec<PathBuf> = std::fs::read_dir(dir)
        .map(|d| {
            d.filter_map(|e| e.ok())
                .map(|e| e.path())
                .filter(|p| p.extension().map(|x| x == "json").unwrap_or(false))
                .collect()
        })
        .unwrap_or_default();
    v.sort();
    v
}

/// Common tail of every check: print, write evidence, pick the exit code.
pub fn finish(r: &Report, out: Outcome, started: Instant, primary_prop_of: impl Fn(Class) -> String) -> i32 {
    let wall = started.elapsed().as_secs_f64();
    if let Some(msg) = &out.infra {
        eprintln!("INFRASTRUCTURE: {msg}");
        return 2;
    }
    let kf = known();
    for f in kf.for_property(r.prop) {
        let hits = out.stats.known.get(&f.signature).cloned().unwrap_or(0);
        println!(
            "KNOWN-FINDING: property={} {} [signature={} hits_this_run={}]",
            f.property, f.what, f.signature, hits
        );
    }
    let violations = if out.failure.is_some() { 1 } else { 0 };
    write_evidence(r, &out.stats, violations, wall);
    println!(
        "{} {} seed={} evaluations={} nontrivial={} distinct_nontrivial={} checks={} wall={:.1}s",
        r.prop,
        r.tier.name(),
        r.seed,
        out.stats.evaluations,
        out.stats.nontrivial,
        out.stats.shapes.len(),
        out.stats.checks,
        wall
    );
    if let Some(f) = out.failure {
        let prop = primary_prop_of(f.fail.class);
        let path = write_replay(&prop, &f.case, &f.fail, r.seed);
        println!("failure class={:?}: {}", f.fail.class, f.fail.msg);
        println!("VIOLATION property={} replay={}", prop, path.display());
        return 1;
    }
    0
}
