//! Types shared by the driver and the executor process.
//!
//! Everything that crosses the process boundary is encoded field by field here,
//! independently of the `Serialize`/`Deserialize` impls of `xs::store::Frame`
//! and `TTL` (those impls are themselves under test, C12).

use serde::{Deserialize, Serialize};
use std::time::Duration;

use scru128::Scru128Id;
use xs::store::{Frame, TTL};

/// TTL in a harness-owned spelling.
#[derive(Clone, Debug, PartialEq, Eq, Hash, Serialize, Deserialize, PartialOrd, Ord)]
pub enum WTtl {
    Forever,
    Ephemeral,
    Time(u64),
    Head(u32),
}

impl WTtl {
    pub fn to_xs(&self) -> TTL {
        match self {
            WTtl::Forever => TTL::Forever,
            WTtl::Ephemeral => TTL::Ephemeral,
            WTtl::Time(ms) => TTL::Time(Duration::from_millis(*ms)),
            WTtl::Head(n) => TTL::Head(*n),
        }
    }
    pub fn from_xs(t: &TTL) -> WTtl {
        match t {
            TTL::Forever => WTtl::Forever,
            TTL::Ephemeral => WTtl::Ephemeral,
            TTL::Time(d) => {
                let ms = d.as_millis();
                // sub-millisecond or > u64 durations are outside every entry point's
                // domain; encode them so that they can never compare equal to a
                // generated value.
                if d.subsec_nanos() % 1_000_000 != 0 || ms > u64::MAX as u128 {
                    WTtl::Time(u64::MAX - 7)
                } else {
                    WTtl::Time(ms as u64)
                }
            }
            TTL::Head(n) => WTtl::Head(*n),
        }
    }
    /// The spelling xs documents for query strings / JSON (`time:<ms>` ...).
    pub fn spelling(&self) -> String {
        match self {
            WTtl::Forever => "forever".into(),
            WTtl::Ephemeral => "ephemeral".into(),
            WTtl::Time(ms) => format!("time:{}", ms),
            WTtl::Head(n) => format!("head:{}", n),
        }
    }
}

/// Meta value in a representation that is exact for floats (bit patterns) and
/// compact for deep nesting.
#[derive(Clone, Debug, PartialEq, Serialize, Deserialize)]
pub enum MetaVal {
    Null,
    Bool(bool),
    I(i64),
    U(u64),
    /// f64 bit pattern (finite values only)
    F(u64),
    S(String),
    A(Vec<MetaVal>),
    O(Vec<(String, MetaVal)>),
    /// `depth` levels of nesting around `inner`; arrays if `arr`, else objects
    /// with key "k".
    Nest(u32, bool, Box<MetaVal>),
    /// verbatim JSON text (used when re-importing what another store printed)
    J(String),
    /// a string of this many characters (frames larger than the 8 KiB journal buffer)
    BigStr(u32),
}

impl MetaVal {
    pub fn to_json(&self) -> serde_json::Value {
        use serde_json::Value as V;
        match self {
            MetaVal::Null => V::Null,
            MetaVal::Bool(b) => V::Bool(*b),
            MetaVal::I(i) => V::Number((*i).into()),
            MetaVal::U(u) => V::Number((*u).into()),
            MetaVal::F(bits) => serde_json::Number::from_f64(f64::from_bits(*bits))
                .map(V::Number)
                .unwrap_or(V::Null),
            MetaVal::S(s) => V::String(s.clone()),
            MetaVal::A(v) => V::Array(v.iter().map(|x| x.to_json()).collect()),
            MetaVal::O(kv) => {
                let mut m = serde_json::Map::new();
                for (k, v) in kv {
                    m.insert(k.clone(), v.to_json());
                }
                V::Object(m)
            }
            MetaVal::J(text) => parse_json_deep(text.as_bytes()).expect("J holds printed JSON"),
            MetaVal::BigStr(n) => V::String((0..*n).map(|i| (b'a' + (i % 26) as u8) as char).collect()),
            MetaVal::Nest(depth, arr, inner) => {
                let mut cur = inner.to_json();
                for _ in 0..*depth {
                    cur = if *arr {
                        V::Array(vec![cur])
                    } else {
                        let mut m = serde_json::Map::new();
                        m.insert("k".to_string(), cur);
                        V::Object(m)
                    };
                }
                cur
            }
        }
    }

    /// nesting depth of the JSON value this expands to (scalars = 0)
    pub fn depth(&self) -> u32 {
        match self {
            MetaVal::A(v) => 1 + v.iter().map(|x| x.depth()).max().unwrap_or(0),
            MetaVal::O(kv) => 1 + kv.iter().map(|x| x.1.depth()).max().unwrap_or(0),
            MetaVal::Nest(d, _, inner) => d + inner.depth(),
            MetaVal::J(text) => {
                let mut depth = 0u32;
                let mut max = 0u32;
                let mut in_str = false;
                let mut esc = false;
                for b in text.bytes() {
                    if in_str {
                        if esc {
                            esc = false;
                        } else if b == b'\\' {
                            esc = true;
                        } else if b == b'"' {
                            in_str = false;
                        }
                    } else {
                        match b {
                            b'"' => in_str = true,
                            b'[' | b'{' => {
                                depth += 1;
                                max = max.max(depth);
                            }
                            b']' | b'}' => depth = depth.saturating_sub(1),
                            _ => {}
                        }
                    }
                }
                max
            }
            _ => 0,
        }
    }

    pub fn has_float(&self) -> bool {
        match self {
            MetaVal::F(_) => true,
            MetaVal::A(v) => v.iter().any(|x| x.has_float()),
            MetaVal::O(kv) => kv.iter().any(|x| x.1.has_float()),
            MetaVal::Nest(_, _, inner) => inner.has_float(),
            MetaVal::J(text) => text.contains('.') || text.contains('e'),
            _ => false,
        }
    }

    pub fn is_object(&self) -> bool {
        match self {
            MetaVal::O(_) => true,
            MetaVal::J(text) => text.starts_with('{'),
            MetaVal::Nest(d, arr, inner) => {
                if *d == 0 {
                    inner.is_object()
                } else {
                    !*arr
                }
            }
            _ => false,
        }
    }
}

/// Canonical printed form of a meta value: serde_json's own printer (ryu for
/// floats, which is injective on f64), never re-parsed by the harness.
pub fn print_json(v: &serde_json::Value) -> String {
    serde_json::to_string(v).expect("serde_json printing of a Value cannot fail")
}

/// A frame as observed from xs, copied out field by field.
#[derive(Clone, Debug, PartialEq, Eq, Serialize, Deserialize)]
pub struct WFrame {
    pub id: String,
    pub ctx: String,
    pub topic: String,
    pub hash: Option<String>,
    /// printed JSON of the meta value
    pub meta: Option<String>,
    pub ttl: Option<WTtl>,
}

impl WFrame {
    pub fn from_xs(f: &Frame) -> WFrame {
        WFrame {
            id: f.id.to_string(),
            ctx: f.context_id.to_string(),
            topic: f.topic.clone(),
            hash: f.hash.as_ref().map(|h| h.to_string()),
            // a top-level JSON null and an absent meta are the same thing in every
            // wire format xs has (`"meta":null`); the harness does not tell them apart
            meta: f.meta.as_ref().filter(|m| !m.is_null()).map(print_json),
            ttl: f.ttl.as_ref().map(WTtl::from_xs),
        }
    }
    pub fn id128(&self) -> u128 {
        parse_id(&self.id).expect("executor emits valid ids")
    }
    pub fn ctx128(&self) -> u128 {
        parse_id(&self.ctx).expect("executor emits valid ids")
    }
    pub fn meta_json(&self) -> Option<serde_json::Value> {
        self.meta.as_ref().and_then(|s| serde_json::from_str(s).ok())
    }
    pub fn meta_str(&self, key: &str) -> Option<String> {
        self.meta_json()
            .and_then(|m| m.get(key).and_then(|v| v.as_str().map(|s| s.to_string())))
    }
}

pub fn parse_id(s: &str) -> Option<u128> {
    s.parse::<Scru128Id>().ok().map(|i| i.to_u128())
}

pub fn id_str(v: u128) -> String {
    Scru128Id::from(v).to_string()
}

pub fn id_ts(v: u128) -> u64 {
    Scru128Id::from(v).timestamp()
}

/// Frame description sent *to* the executor (append or import).
#[derive(Clone, Debug, PartialEq, Serialize, Deserialize)]
pub struct FrameSpec {
    pub topic: String,
    #[serde(with = "id_ser")]
    pub ctx: u128,
    /// only used by import
    #[serde(with = "opt_id_ser")]
    pub id: Option<u128>,
    pub hash: Option<String>,
    pub meta: Option<MetaVal>,
    pub ttl: Option<WTtl>,
}

impl FrameSpec {
    pub fn to_xs(&self) -> Result<Frame, String> {
        let hash = match &self.hash {
            Some(h) => Some(
                h.parse::<ssri::Integrity>()
                    .map_err(|e| format!("bad hash {h}: {e}"))?,
            ),
            None => None,
        };
        Ok(Frame {
            topic: self.topic.clone(),
            context_id: Scru128Id::from(self.ctx),
            id: Scru128Id::from(self.id.unwrap_or(0)),
            hash,
            // (top-level null meta and absent meta are one thing on every wire format)
            meta: self.meta.as_ref().map(|m| m.to_json()).filter(|m| !m.is_null()),
            ttl: self.ttl.as_ref().map(|t| t.to_xs()),
        })
    }
    pub fn meta_printed(&self) -> Option<String> {
        self.meta
            .as_ref()
            .map(|m| m.to_json())
            .filter(|m| !m.is_null())
            .map(|m| print_json(&m))
    }
}

/// Read options in harness spelling.
#[derive(Clone, Debug, PartialEq, Serialize, Deserialize, Default)]
pub struct ROpts {
    /// None = off, Some(0) = on, Some(n) = heartbeat n ms
    pub follow: Option<u64>,
    pub tail: bool,
    #[serde(with = "opt_id_ser")]
    pub last_id: Option<u128>,
    pub limit: Option<usize>,
    #[serde(with = "opt_id_ser")]
    pub ctx: Option<u128>,
}

impl ROpts {
    pub fn to_xs(&self) -> xs::store::ReadOptions {
        use xs::store::{FollowOption, ReadOptions};
        let follow = match self.follow {
            None => FollowOption::Off,
            Some(0) => FollowOption::On,
            Some(n) => FollowOption::WithHeartbeat(Duration::from_millis(n)),
        };
        ReadOptions::builder()
            .follow(follow)
            .tail(self.tail)
            .maybe_last_id(self.last_id.map(Scru128Id::from))
            .maybe_limit(self.limit)
            .maybe_context_id(self.ctx.map(Scru128Id::from))
            .build()
    }
}

pub fn b64(bytes: &[u8]) -> String {
    use base64::Engine;
    base64::engine::general_purpose::STANDARD.encode(bytes)
}

pub fn unb64(s: &str) -> Vec<u8> {
    use base64::Engine;
    base64::engine::general_purpose::STANDARD
        .decode(s)
        .expect("harness-produced base64")
}

pub fn sha256_integrity(bytes: &[u8]) -> String {
    use sha2::{Digest, Sha256};
    let mut h = Sha256::new();
    h.update(bytes);
    format!("sha256-{}", b64(&h.finalize()))
}

/// u128 ids travel as scru128 strings (serde_json has no lossless u128).
pub mod id_ser {
    use serde::{Deserialize, Deserializer, Serializer};
    pub fn serialize<S: Serializer>(v: &u128, s: S) -> Result<S::Ok, S::Error> {
        s.serialize_str(&super::id_str(*v))
    }
    pub fn deserialize<'de, D: Deserializer<'de>>(d: D) -> Result<u128, D::Error> {
        let s: String = Deserialize::deserialize(d)?;
        super::parse_id(&s).ok_or_else(|| serde::de::Error::custom("bad id"))
    }
}

pub mod opt_id_ser {
    use serde::{Deserialize, Deserializer, Serializer};
    pub fn serialize<S: Serializer>(v: &Option<u128>, s: S) -> Result<S::Ok, S::Error> {
        match v {
            Some(v) => s.serialize_some(&super::id_str(*v)),
            None => s.serialize_none(),
        }
    }
    pub fn deserialize<'de, D: Deserializer<'de>>(d: D) -> Result<Option<u128>, D::Error> {
        let s: Option<String> = Deserialize::deserialize(d)?;
        match s {
            None => Ok(None),
            Some(s) => super::parse_id(&s)
                .map(Some)
                .ok_or_else(|| serde::de::Error::custom("bad id")),
        }
    }
}

pub mod vec_id_ser {
    use serde::{Deserialize, Deserializer, Serializer};
    pub fn serialize<S: Serializer>(v: &Vec<u128>, s: S) -> Result<S::Ok, S::Error> {
        s.collect_seq(v.iter().map(|x| super::id_str(*x)))
    }
    pub fn deserialize<'de, D: Deserializer<'de>>(d: D) -> Result<Vec<u128>, D::Error> {
        let s: Vec<String> = Deserialize::deserialize(d)?;
        s.iter()
            .map(|s| super::parse_id(s).ok_or_else(|| serde::de::Error::custom("bad id")))
            .collect()
    }
}

/// Content of a frame in a case description: short byte strings literally (hex),
/// long ones as a reproducible pattern.
#[derive(Clone, Debug, PartialEq, Eq, Serialize, Deserialize)]
pub enum Content {
    Bytes(#[serde(with = "hex_ser")] Vec<u8>),
    Pattern { len: u32, seed: u8 },
}

impl Content {
    pub fn bytes(&self) -> Vec<u8> {
        match self {
            Content::Bytes(b) => b.clone(),
            Content::Pattern { len, seed } => (0..*len as usize)
                .map(|i| seed.wrapping_mul(31).wrapping_add((i % 251) as u8) ^ ((i / 251) as u8))
                .collect(),
        }
    }
    pub fn len(&self) -> usize {
        match self {
            Content::Bytes(b) => b.len(),
            Content::Pattern { len, .. } => *len as usize,
        }
    }
}

pub mod hex_ser {
    use serde::{Deserialize, Deserializer, Serializer};
    pub fn serialize<S: Serializer>(v: &Vec<u8>, s: S) -> Result<S::Ok, S::Error> {
        let mut out = String::with_capacity(v.len() * 2);
        for b in v {
            out.push_str(&format!("{:02x}", b));
        }
        s.serialize_str(&out)
    }
    pub fn deserialize<'de, D: Deserializer<'de>>(d: D) -> Result<Vec<u8>, D::Error> {
        let s: String = Deserialize::deserialize(d)?;
        if s.len() % 2 != 0 {
            return Err(serde::de::Error::custom("odd hex"));
        }
        (0..s.len() / 2)
            .map(|i| {
                u8::from_str_radix(&s[2 * i..2 * i + 2], 16)
                    .map_err(|_| serde::de::Error::custom("bad hex"))
            })
            .collect()
    }
}

impl WTtl {
    /// Harness-owned parser of the documented spellings (`forever`, `ephemeral`,
    /// `time:<ms>`, `head:<n>`), used to decode what xs sends over HTTP.
    pub fn parse_spelling(s: &str) -> Option<WTtl> {
        match s {
            "forever" => Some(WTtl::Forever),
            "ephemeral" => Some(WTtl::Ephemeral),
            _ => {
                if let Some(n) = s.strip_prefix("time:") {
                    if !n.is_empty() && n.bytes().all(|b| b.is_ascii_digit()) {
                        return n.parse::<u64>().ok().map(WTtl::Time);
                    }
                    None
                } else if let Some(n) = s.strip_prefix("head:") {
                    if !n.is_empty() && n.bytes().all(|b| b.is_ascii_digit()) {
                        return n.parse::<u32>().ok().filter(|k| *k >= 1).map(WTtl::Head);
                    }
                    None
                } else {
                    None
                }
            }
        }
    }
}

/// Decode a frame from the JSON xs emits (HTTP bodies, NDJSON, SSE data),
/// field by field, without going through `Frame`'s `Deserialize`.
pub fn wframe_from_json(v: &serde_json::Value) -> Result<WFrame, String> {
    let o = v.as_object().ok_or("frame JSON is not an object")?;
    for k in o.keys() {
        if !["id", "context_id", "topic", "hash", "meta", "ttl"].contains(&k.as_str()) {
            return Err(format!("unexpected field {k:?} in frame JSON"));
        }
    }
    let s = |k: &str| -> Result<String, String> {
        o.get(k)
            .and_then(|x| x.as_str())
            .map(|x| x.to_string())
            .ok_or(format!("frame JSON lacks string field {k:?}"))
    };
    let id = s("id")?;
    let ctx = s("context_id")?;
    if parse_id(&id).is_none() || parse_id(&ctx).is_none() {
        return Err(format!("frame JSON carries malformed ids {id:?} {ctx:?}"));
    }
    let hash = match o.get("hash") {
        None | Some(serde_json::Value::Null) => None,
        Some(serde_json::Value::String(h)) => Some(h.clone()),
        Some(x) => return Err(format!("hash is {x}")),
    };
    let meta = match o.get("meta") {
        None | Some(serde_json::Value::Null) => None,
        Some(m) => Some(print_json(m)),
    };
    let ttl = match o.get("ttl") {
        None | Some(serde_json::Value::Null) => None,
        Some(serde_json::Value::String(t)) => {
            Some(WTtl::parse_spelling(t).ok_or(format!("ttl spelled {t:?}"))?)
        }
        Some(x) => return Err(format!("ttl is {x}")),
    };
    Ok(WFrame {
        id,
        ctx,
        topic: s("topic")?,
        hash,
        meta,
        ttl,
    })
}

/// Encode a frame for `POST /import` the way the docs describe the export format
/// (one JSON object per frame), built by hand.
pub fn frame_json_for_import(spec: &FrameSpec) -> String {
    frame_json_for_import_opt(spec, false)
}

/// `sparse`: leave out the optional top-level fields that are null.
pub fn frame_json_for_import_opt(spec: &FrameSpec, sparse: bool) -> String {
    let mut m = serde_json::Map::new();
    m.insert("topic".into(), serde_json::Value::String(spec.topic.clone()));
    m.insert(
        "context_id".into(),
        serde_json::Value::String(id_str(spec.ctx)),
    );
    m.insert(
        "id".into(),
        serde_json::Value::String(id_str(spec.id.unwrap_or(0))),
    );
    m.insert(
        "hash".into(),
        spec.hash
            .clone()
            .map(serde_json::Value::String)
            .unwrap_or(serde_json::Value::Null),
    );
    m.insert(
        "meta".into(),
        spec.meta
            .as_ref()
            .map(|x| x.to_json())
            .unwrap_or(serde_json::Value::Null),
    );
    m.insert(
        "ttl".into(),
        spec.ttl
            .as_ref()
            .map(|t| serde_json::Value::String(t.spelling()))
            .unwrap_or(serde_json::Value::Null),
    );
    if sparse {
        for k in ["hash", "ttl"] {
            if m.get(k).map(|v| v.is_null()).unwrap_or(false) {
                m.remove(k);
            }
        }
    }
    print_json(&serde_json::Value::Object(m))
}

/// Parse JSON without serde_json's nesting limit (responses may legitimately
/// nest deeper than 128 levels; the limit under test is xs's, not the harness's).
pub fn parse_json_deep(bytes: &[u8]) -> Result<serde_json::Value, String> {
    use serde::Deserialize;
    let mut de = serde_json::Deserializer::from_slice(bytes);
    de.disable_recursion_limit();
    let v = serde_json::Value::deserialize(&mut de).map_err(|e| e.to_string())?;
    de.end().map_err(|e| e.to_string())?;
    Ok(v)
}
