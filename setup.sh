#!/bin/bash
# Builds the harness (and with it xs from /repo, feature `verif`) offline.
set -e
cd "$(dirname "$0")"
export CARGO_NET_OFFLINE=true
( cd harness && cargo build --offline )
gcc -shared -fPIC -O1 -Wno-nonnull-compare -o shim/crashshim.so shim/crashshim.c -ldl -lpthread
