// LD_PRELOAD crash / power-loss injector for the xs executor (DESIGN 6.4).
//
// Numbers every file-system mutation (write, pwrite, fsync, fdatasync, rename,
// ftruncate, creating open, unlink, mkdir) that touches a path under
// $XSV_CRASH_DIR. Once armed (xsv_arm, called by the executor on request of the
// driver) the process is SIGKILLed at event number `at`, before or after the
// call is executed. In power-loss mode the bytes written to files under
// fjall/journals/ since their last fsync/fdatasync are zeroed first, except a
// prefix (torn_q quarters of the unsynced bytes, in write order) that is kept.
#define _GNU_SOURCE
#include <dlfcn.h>
#include <errno.h>
#include <fcntl.h>
#include <pthread.h>
#include <signal.h>
#include <stdarg.h>
#include <stdio.h>
#include <stdlib.h>
#include <string.h>
#include <sys/stat.h>
#include <sys/types.h>
#include <sys/uio.h>
#include <unistd.h>
#define COMMA ,

static ssize_t (*real_write)(int, const void *, size_t);
static ssize_t (*real_pwrite)(int, const void *, size_t, off_t);
static ssize_t (*real_pwrite64)(int, const void *, size_t, off_t);
static ssize_t (*real_writev)(int, const struct iovec *, int);
static int (*real_fsync)(int);
static int (*real_fdatasync)(int);
static int (*real_rename)(const char *, const char *);
static int (*real_renameat)(int, const char *, int, const char *);
static int (*real_renameat2)(int, const char *, int, const char *, unsigned int);
static int (*real_ftruncate)(int, off_t);
static int (*real_ftruncate64)(int, off_t);
static int (*real_open)(const char *, int, ...);
static int (*real_open64)(const char *, int, ...);
static int (*real_openat)(int, const char *, int, ...);
static int (*real_openat64)(int, const char *, int, ...);
static int (*real_unlink)(const char *);
static int (*real_unlinkat)(int, const char *, int);
static int (*real_mkdir)(const char *, mode_t);

static char g_dir[2048];
static size_t g_dirlen = 0;
static int g_logfd = -1;
static long g_counter = 0;
static long g_kill_at = -1;
static int g_before = 0, g_power = 0, g_torn_q = 0, g_armed = 0;
static pthread_mutex_t g_mu = PTHREAD_MUTEX_INITIALIZER;
static int g_init = 0;

struct range { off_t off; size_t len; };
#define MAXR 8192
struct jfile { char path[600]; struct range r[MAXR]; int n; int used; };
#define MAXJ 8
static struct jfile g_j[MAXJ];

static void init(void) {
    if (g_init) return;
    g_init = 1;
    real_write = dlsym(RTLD_NEXT, "write");
    real_pwrite = dlsym(RTLD_NEXT, "pwrite");
    real_pwrite64 = dlsym(RTLD_NEXT, "pwrite64");
    real_writev = dlsym(RTLD_NEXT, "writev");
    real_fsync = dlsym(RTLD_NEXT, "fsync");
    real_fdatasync = dlsym(RTLD_NEXT, "fdatasync");
    real_rename = dlsym(RTLD_NEXT, "rename");
    real_renameat = dlsym(RTLD_NEXT, "renameat");
    real_renameat2 = dlsym(RTLD_NEXT, "renameat2");
    real_ftruncate = dlsym(RTLD_NEXT, "ftruncate");
    real_ftruncate64 = dlsym(RTLD_NEXT, "ftruncate64");
    real_open = dlsym(RTLD_NEXT, "open");
    real_open64 = dlsym(RTLD_NEXT, "open64");
    real_openat = dlsym(RTLD_NEXT, "openat");
    real_openat64 = dlsym(RTLD_NEXT, "openat64");
    real_unlink = dlsym(RTLD_NEXT, "unlink");
    real_unlinkat = dlsym(RTLD_NEXT, "unlinkat");
    real_mkdir = dlsym(RTLD_NEXT, "mkdir");
    const char *d = getenv("XSV_CRASH_DIR");
    if (d && strlen(d) < sizeof(g_dir)) {
        strcpy(g_dir, d);
        g_dirlen = strlen(g_dir);
    }
    const char *l = getenv("XSV_CRASH_LOG");
    if (l && real_open) g_logfd = real_open(l, O_WRONLY | O_CREAT | O_APPEND, 0644);
}

static int under(const char *p) {
    return g_dirlen > 0 && p && strncmp(p, g_dir, g_dirlen) == 0;
}

static int fd_path(int fd, char *buf, size_t n) {
    char link[64];
    snprintf(link, sizeof link, "/proc/self/fd/%d", fd);
    ssize_t k = readlink(link, buf, n - 1);
    if (k <= 0) return 0;
    buf[k] = 0;
    return 1;
}

static int is_journal(const char *p) { return strstr(p, "/fjall/journals/") != NULL; }

static struct jfile *jget(const char *p, int create) {
    for (int i = 0; i < MAXJ; i++)
        if (g_j[i].used && strcmp(g_j[i].path, p) == 0) return &g_j[i];
    if (!create) return NULL;
    for (int i = 0; i < MAXJ; i++)
        if (!g_j[i].used) {
            g_j[i].used = 1;
            g_j[i].n = 0;
            snprintf(g_j[i].path, sizeof g_j[i].path, "%s", p);
            return &g_j[i];
        }
    // all slots taken: recycle the one with no unsynced data
    for (int i = 0; i < MAXJ; i++)
        if (g_j[i].n == 0) {
            snprintf(g_j[i].path, sizeof g_j[i].path, "%s", p);
            return &g_j[i];
        }
    return NULL;
}

static void revert_unsynced(void) {
    static char zeros[65536];
    for (int i = 0; i < MAXJ; i++) {
        struct jfile *j = &g_j[i];
        if (!j->used || j->n == 0) continue;
        size_t total = 0;
        for (int k = 0; k < j->n; k++) total += j->r[k].len;
        size_t keep = total * (size_t)g_torn_q / 4;
        int fd = real_open(j->path, O_WRONLY);
        if (fd < 0) continue;
        size_t seen = 0;
        for (int k = 0; k < j->n; k++) {
            off_t off = j->r[k].off;
            size_t len = j->r[k].len;
            if (seen + len <= keep) { seen += len; continue; }
            size_t skip = keep > seen ? keep - seen : 0;
            seen += len;
            off += skip;
            len -= skip;
            while (len > 0) {
                size_t c = len > sizeof zeros ? sizeof zeros : len;
                (real_pwrite64 ? real_pwrite64 : real_pwrite)(fd, zeros, c, off);
                off += c;
                len -= c;
            }
        }
        real_fsync(fd);
        close(fd);
    }
}

static void die(void) {
    if (g_power) revert_unsynced();
    if (g_logfd >= 0) real_write(g_logfd, "KILLED\n", 7);
    raise(SIGKILL);
    for (;;) pause();
}

// returns the event number (>0) if this call is an event, else 0; holds g_mu on return when an event
static long ev_begin(const char *kind, const char *path, long a, long b) {
    if (!under(path)) return 0;
    pthread_mutex_lock(&g_mu);
    long k = ++g_counter;
    if (g_logfd >= 0) {
        char line[900];
        int n = snprintf(line, sizeof line, "%ld %s %s %ld %ld%s\n", k, kind, path + g_dirlen, a, b, g_armed ? "" : " unarmed");
        if (n > 0) real_write(g_logfd, line, (size_t)n);
    }
    if (g_armed && k == g_kill_at && g_before) die();
    return k;
}

static void ev_end(long k) {
    if (k == 0) return;
    if (g_armed && k == g_kill_at && !g_before) die();
    pthread_mutex_unlock(&g_mu);
}

// ---- exported control ------------------------------------------------------
void xsv_arm(long at_relative, int before, int power, int torn_q) {
    init();
    pthread_mutex_lock(&g_mu);
    g_kill_at = g_counter + at_relative;
    g_before = before;
    g_power = power;
    g_torn_q = torn_q;
    g_armed = 1;
    pthread_mutex_unlock(&g_mu);
}

long xsv_count(void) {
    init();
    return g_counter;
}

// ---- interposed calls --------------------------------------------------------
static void note_write(const char *path, off_t off, size_t len) {
    if (!is_journal(path) || len == 0) return;
    struct jfile *j = jget(path, 1);
    if (j && j->n < MAXR) {
        j->r[j->n].off = off;
        j->r[j->n].len = len;
        j->n++;
    }
}

ssize_t write(int fd, const void *buf, size_t n) {
    init();
    char p[1024];
    if (g_dirlen == 0 || fd <= 2 || !fd_path(fd, p, sizeof p) || !under(p)) return real_write(fd, buf, n);
    off_t off = lseek(fd, 0, SEEK_CUR);
    long k = ev_begin("write", p, (long)off, (long)n);
    ssize_t r = real_write(fd, buf, n);
    if (k && r > 0) note_write(p, off, (size_t)r);
    ev_end(k);
    return r;
}

ssize_t writev(int fd, const struct iovec *iov, int cnt) {
    init();
    char p[1024];
    if (g_dirlen == 0 || fd <= 2 || !fd_path(fd, p, sizeof p) || !under(p)) return real_writev(fd, iov, cnt);
    off_t off = lseek(fd, 0, SEEK_CUR);
    long k = ev_begin("writev", p, (long)off, (long)cnt);
    ssize_t r = real_writev(fd, iov, cnt);
    if (k && r > 0) note_write(p, off, (size_t)r);
    ev_end(k);
    return r;
}

ssize_t pwrite(int fd, const void *buf, size_t n, off_t off) {
    init();
    char p[1024];
    if (g_dirlen == 0 || !fd_path(fd, p, sizeof p) || !under(p)) return real_pwrite(fd, buf, n, off);
    long k = ev_begin("pwrite", p, (long)off, (long)n);
    ssize_t r = real_pwrite(fd, buf, n, off);
    if (k && r > 0) note_write(p, off, (size_t)r);
    ev_end(k);
    return r;
}

ssize_t pwrite64(int fd, const void *buf, size_t n, off_t off) {
    init();
    char p[1024];
    if (g_dirlen == 0 || !fd_path(fd, p, sizeof p) || !under(p)) return real_pwrite64(fd, buf, n, off);
    long k = ev_begin("pwrite", p, (long)off, (long)n);
    ssize_t r = real_pwrite64(fd, buf, n, off);
    if (k && r > 0) note_write(p, off, (size_t)r);
    ev_end(k);
    return r;
}

static int do_sync(int fd, int data) {
    init();
    char p[1024];
    int (*f)(int) = data ? real_fdatasync : real_fsync;
    if (g_dirlen == 0 || !fd_path(fd, p, sizeof p) || !under(p)) return f(fd);
    long k = ev_begin(data ? "fdatasync" : "fsync", p, 0, 0);
    int r = f(fd);
    if (k && r == 0) {
        struct jfile *j = jget(p, 0);
        if (j) j->n = 0;
    }
    ev_end(k);
    return r;
}
int fsync(int fd) { return do_sync(fd, 0); }
int fdatasync(int fd) { return do_sync(fd, 1); }

int rename(const char *a, const char *b) {
    init();
    long k = ev_begin("rename", under(b) ? b : a, 0, 0);
    int r = real_rename(a, b);
    ev_end(k);
    return r;
}
int renameat(int ad, const char *a, int bd, const char *b) {
    init();
    long k = (b && b[0] == '/') ? ev_begin("rename", b, 0, 0) : 0;
    int r = real_renameat(ad, a, bd, b);
    ev_end(k);
    return r;
}
int renameat2(int ad, const char *a, int bd, const char *b, unsigned int fl) {
    init();
    long k = (b && b[0] == '/') ? ev_begin("rename", b, 0, 0) : 0;
    int r = real_renameat2 ? real_renameat2(ad, a, bd, b, fl) : (errno = ENOSYS, -1);
    ev_end(k);
    return r;
}

int ftruncate(int fd, off_t len) {
    init();
    char p[1024];
    if (g_dirlen == 0 || !fd_path(fd, p, sizeof p) || !under(p)) return real_ftruncate(fd, len);
    long k = ev_begin("ftruncate", p, (long)len, 0);
    int r = real_ftruncate(fd, len);
    ev_end(k);
    return r;
}
int ftruncate64(int fd, off_t len) {
    init();
    char p[1024];
    if (g_dirlen == 0 || !fd_path(fd, p, sizeof p) || !under(p)) return real_ftruncate64(fd, len);
    long k = ev_begin("ftruncate", p, (long)len, 0);
    int r = real_ftruncate64(fd, len);
    ev_end(k);
    return r;
}

#define OPEN_BODY(REAL, DIRFD_ARGS, PATH)                                   \
    init();                                                                 \
    mode_t mode = 0;                                                        \
    if (flags & (O_CREAT | O_TMPFILE)) {                                    \
        va_list ap;                                                         \
        va_start(ap, flags);                                                \
        mode = va_arg(ap, mode_t);                                          \
        va_end(ap);                                                         \
    }                                                                       \
    long k = 0;                                                             \
    if ((flags & O_CREAT) && PATH && PATH[0] == '/') {                      \
        struct stat st;                                                     \
        if (under(PATH) && stat(PATH, &st) != 0) k = ev_begin("create", PATH, 0, 0); \
    }                                                                       \
    int r = REAL(DIRFD_ARGS PATH, flags, mode);                             \
    ev_end(k);                                                              \
    return r;

int open(const char *path, int flags, ...) { OPEN_BODY(real_open, , path) }
int open64(const char *path, int flags, ...) { OPEN_BODY(real_open64, , path) }
int openat(int dfd, const char *path, int flags, ...) { OPEN_BODY(real_openat, dfd COMMA, path) }
int openat64(int dfd, const char *path, int flags, ...) { OPEN_BODY(real_openat64, dfd COMMA, path) }

int unlink(const char *p) {
    init();
    long k = ev_begin("unlink", p, 0, 0);
    int r = real_unlink(p);
    ev_end(k);
    return r;
}
int unlinkat(int dfd, const char *p, int fl) {
    init();
    long k = (p && p[0] == '/') ? ev_begin("unlink", p, 0, 0) : 0;
    int r = real_unlinkat(dfd, p, fl);
    ev_end(k);
    return r;
}
int mkdir(const char *p, mode_t m) {
    init();
    long k = ev_begin("mkdir", p, 0, 0);
    int r = real_mkdir(p, m);
    ev_end(k);
    return r;
}
