#!/bin/bash
# tools/confirm_seed.sh <worktree> <mN>   -- independently confirm a seeded change inside its scratch worktree
WT="$1"; M="$2"; D="$WT/_seed/$M"
cd "$WT" || exit 2
git checkout -q -- . ; rm -f tests/seed_demo_*.rs
res() { echo "$1" >> "$D/confirm.log"; }
: > "$D/confirm.log"
git apply --check "$D/patch.diff" && res "patch_applies_to_clean_head=yes" || { res "patch_applies_to_clean_head=NO"; exit 1; }
git apply "$D/patch.diff"
cargo test --workspace --offline -j 6 --no-run > /dev/null 2>&1
for attempt in 1 2 3 4; do
  # (some of the repository's own tests occasionally hang under load: bounded and retried)
  timeout -k 5 180 cargo test --workspace --offline -j 6 --no-fail-fast -- --skip test_follow > "$D/confirm.suite.log" 2>&1; src=$?
  [ $src -ne 124 ] && [ $src -ne 137 ] && break
done
res "suite_exit_status_with_mutant=$src (attempt $attempt; 0 = the whole existing suite passes)"
cp "$D/demo.rs" tests/seed_demo_$M.rs
grep -E "^test result" "$D/confirm.suite.log" | head -3 >> "$D/confirm.log"
timeout 600 cargo test --offline -j 6 --test seed_demo_$M > "$D/confirm.demo_with.log" 2>&1; rc1=$?
res "demo_with_mutant_rc=$rc1"
git checkout -q -- src Cargo.toml 2>/dev/null; git checkout -q -- .
cp "$D/demo.rs" tests/seed_demo_$M.rs
timeout 900 cargo test --offline -j 6 --test seed_demo_$M > "$D/confirm.demo_without.log" 2>&1; rc2=$?
res "demo_without_mutant_rc=$rc2"
rm -f tests/seed_demo_$M.rs
git status --short | grep -v '^??' >> "$D/confirm.log"
cat "$D/confirm.log"
