#!/usr/bin/env python3
"""tools/keep_seed.py <worktree> <mN> <name> <detected_by...>  -- keep a confirmed seeded change under /verif/seeded/<name>/"""
import sys, json, os, shutil
wt, m, name = sys.argv[1:4]
detected = sys.argv[4:]
src = f"{wt}/_seed/{m}"
dst = f"/verif/seeded/{name}"
os.makedirs(dst, exist_ok=True)
shutil.copy(f"{src}/patch.diff", f"{dst}/patch.diff")
shutil.copy(f"{src}/demo.rs", f"{dst}/demo.rs")
meta = json.load(open(f"{src}/meta.json"))
confirm = open(f"{src}/confirm.log").read().splitlines() if os.path.exists(f"{src}/confirm.log") else []
meta["confirmed_by_me"] = {
    "how": "tools/confirm_seed.sh in the scratch worktree: git apply --check on clean HEAD; cargo test --workspace --offline (-- --skip test_follow) with the change; demo as tests/seed_demo_<m>.rs with the change (must fail) and without it (must pass)",
    "log": confirm,
}
meta["detected_by_quick_checks"] = detected
json.dump(meta, open(f"{dst}/meta.json", "w"), indent=1)
print("kept", dst, detected)
