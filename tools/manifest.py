#!/usr/bin/env python3
"""Regenerates /verif/MANIFEST.json from the table below (keeps it schema-valid)."""
import json, subprocess
props=[json.loads(l) for l in open('/verif/properties.jsonl')]
HIST_NOTE="trusts: the reference model (harness/src/model.rs, unit-tested), serde_json's printer for meta comparison, the verif feature's virtual clock; reopen = SIGKILL + new process"
C={
 "C01":("exploration","model-based history testing (proptest-generated op sequences vs reference model, executor process per case)",
  "Thousands of generated histories per run (append/import/remove/clock/drain/reopen over adversarial topics, metas, all TTL kinds, >=3 contexts, small-memtable layouts) are executed against the real store in a child process and compared step by step and at settled points with a reference model: id order, exactly-once, scope, last-id, limit, field equality, increasing append ids. Sampling, not proof.",HIST_NOTE),
 "C05":("exploration","model-based history testing with cross-path agreement oracle over adversarial topic strings",
  "Generated histories over prefix-related topics; at settled points and after reopen every id ever issued is looked up by id, in the all-contexts stream and in its context stream, and head is compared with the last frame of exactly that topic for all used topics and their one-byte neighbours in every context, both against the model and model-free. Sampling, not proof.",HIST_NOTE),
 "C07":("exploration","model-based history testing of the registration rule with kill/reopen",
  "Generated histories of registrations, removals and imports of registration frames, appends into every kind of context id and SIGKILL+reopen; append accepted iff the model holds a registration frame in the zero context; rejected appends leave no trace (full-state comparison, silent follower). Sampling, not proof.",HIST_NOTE),
 "C08":("exploration","model-based history testing, three-valued retention model, frozen virtual clock",
  "Generated TTL-heavy histories with the clock frozen at expiry-1/expiry/expiry+1 ms; every frame that no retention rule can have touched must be returned by every path after every step (three-valued model for asynchronous GC). Sampling, not proof.",HIST_NOTE),
 "C09":("exploration","model-based history testing, three-valued retention model, frozen virtual clock, tail follower",
  "Generated TTL-heavy histories; ephemeral frames reach the open follower and are never stored, expired frames never appear in stream reads and are gone after read+drain, head:N topics hold at most the N newest after a drain. Sampling, not proof.",HIST_NOTE),
 "C02":("exploration","schedule exploration: generated delay schedules at append sync points over multi-writer/poller/follower scenarios, history-invariant oracle on the event log; hook-free stress as second detector",
  "Generated scenarios (2-4 appender threads, last-id pollers, tail and from-start followers, 3 contexts) run inside one executor under generated delays at the id-assignment / commit / broadcast steps of append; oracle: each poller's concatenated results equal the final stream in its scope (a frame becoming visible below an observed id shows as a frame never seen), every delivery sequence strictly increasing and complete. One case in ten is a plain 4-8 writer stress without hooks. Sampling, not proof.",
  "interleavings are sampled at the granularity of the verif feature's sync points (delays of 0.2-20 ms dominate natural jitter) plus a hook-free stress; no exhaustive schedule enumeration; oracles are evaluated on the observable event log only"),
 "C03":("exploration","schedule exploration: generated delay schedules at read and append sync points across the history->live hand-off, exact expectation from the event log",
  "One follower per scenario over histories of 0 to 300 frames (past the 100-slot delivery buffer), every start position and scope, 1-3 appender threads emitting stored and ephemeral frames before/during/after the replay, delays at the subscribe / per-delivery / threshold / done / live-receive steps; oracle: exactly the frames in scope after the start position plus everything appended after the subscription, once each, increasing; exactly one threshold, after everything that existed when the read began. One known finding (ephemeral frame lost during replay) is tolerated by exact signature. Sampling, not proof.",
  "interleavings are sampled at the granularity of the verif feature's sync points (delays of 0.2-20 ms dominate natural jitter) plus a hook-free stress; no exhaustive schedule enumeration; oracles are evaluated on the observable event log only; frames appended while the read() call itself is in progress are undetermined"),
 "C11":("exploration","generated follow-option combinations and consumer speeds (incl. lagging past the 1024-frame broadcast buffer) with bounded-response oracle for stream end",
  "Generated readers (limit vs history size, follow/heartbeat/tail/last-id/context), live appends after the read and slow consumers that fall more than 1124 frames behind; oracle: exactly the first n matching frames then the stream ends (closed within 3 s), thresholds and pulses only where asked and never stored or seen by another subscriber, lagging streams deliver a gap-free prefix and end. Sampling, not proof.",
  "interleavings are sampled at the granularity of the verif feature's sync points (delays of 0.2-20 ms dominate natural jitter) plus a hook-free stress; no exhaustive schedule enumeration; oracles are evaluated on the observable event log only; stream end is checked as bounded response (3 s against microsecond latencies)"),
 "C14":("exploration","generated histories and bursts against a recorder handler; oracle = model of the trigger list, counter kept in the handler's environment",
  "A recorder handler (reports each frame it is invoked for and a counter kept in $env) is registered with every resume mode over generated pre-histories (own/foreign context, look-alike topics, an earlier lifecycle of the same name with outputs, a second handler) and then hit by bursts from 1-3 concurrent writers while it sleeps; the frames it saw must equal, in order and once each, the model's trigger list; the counter must run 1,2,3,...; thresholds and pulses only as specified. Sampling, not proof.",
  "nu scripts are rendered from templates/ASTs with generated parameters, not from the nu grammar; bounded-response waits of 8-20 s against millisecond latencies; the serve loops run in an executor process wired exactly as `xs serve` wires them"),
 "C15":("exploration","program generation (handler script AST -> nu source) with exact expected-output oracle incl. CAS content",
  "Handler programs rendered from an AST (0-4 explicit appends with meta/ttl/context options, failure before/between/after, return value of every type, suffix/ttl options) run on 1-3 triggers; the frames stamped with each trigger must be exactly the explicit appends in call order then the return frame, stamped over colliding user keys, in the handler's context, with byte/JSON-exact content in CAS; on failure nothing but one .unregistered and no later invocation. Sampling, not proof.",
  "nu scripts are rendered from templates/ASTs with generated parameters, not from the nu grammar; bounded-response waits of 8-20 s against millisecond latencies; the serve loops run in an executor process wired exactly as `xs serve` wires them"),
 "C16":("exploration","generated lifecycle event sequences with schedule delays at the handler's subscribe/announce sync points; per-instance and per-probe history invariants",
  "Sequences of register (valid/three kinds of invalid)/re-register/unregister/failing trigger/probe over two names and two contexts, with a probe appended the moment .registered is visible and optional 5/20 ms delays at the subscribe and announce steps; per instance: at most one .registered, exactly one .unregistered (error iff it stopped on one), nothing after it; per probe: answered by exactly the active instances of its context. Sampling, not proof.",
  "nu scripts are rendered from templates/ASTs with generated parameters, not from the nu grammar; bounded-response waits of 8-20 s against millisecond latencies; the serve loops run in an executor process wired exactly as `xs serve` wires them"),
 "C17":("exploration","generated histories with 1-3 kill/restart points; model of the active set per (context, name); probes after live sentinels",
  "Histories over handler/generator/command lifecycle events for two names of each kind in three contexts (same name in several contexts included) with SIGKILL+restart of the server process; after each restart, once live sentinels have come through, probes and calls in every context must be answered by exactly the model's active instances/definitions with their original ids, the restored generators must be exactly those whose latest spawn succeeded, and no historical trigger or call may gain an output. Sampling, not proof.",
  "nu scripts are rendered from templates/ASTs with generated parameters, not from the nu grammar; bounded-response waits of 8-20 s against millisecond latencies; the serve loops run in an executor process wired exactly as `xs serve` wires them"),
 "C18":("exploration","program generation (generator expression templates) with lifecycle-grammar oracle; duplex send sequences with foreign traffic",
  "Generator programs producing 0-5 strings in four shapes watched over 1-2 real lifecycles, refused spawns, and duplex echo generators fed generated sequences of own, foreign-context and foreign-name sends; frames per spawn id must match (start recv{k} stop)+ with exact contents in the spawn's context, a refused spawn exactly one .spawn.error, duplex exactly one echo per own send in order. Sampling, not proof.",
  "nu scripts are rendered from templates/ASTs with generated parameters, not from the nu grammar; bounded-response waits of 8-20 s against millisecond latencies; the serve loops run in an executor process wired exactly as `xs serve` wires them"),
 "C19":("exploration","program generation (command definition AST) and define/redefine/call sequences with overlapping calls; per-call history oracle",
  "Sequences of define/redefine/call over four names in two contexts, definitions rendered from an AST (0-4 values of any type, streams, lazily raised errors, explicit append, env-leak probe, sleep so that back-to-back calls overlap, suffix/ttl, module, broken definitions); per call: k results in order with exact JSON content then exactly one .complete, or exactly one .error, stamped with the latest valid definition and the call, in the caller's context. Sampling, not proof.",
  "nu scripts are rendered from templates/ASTs with generated parameters, not from the nu grammar; bounded-response waits of 8-20 s against millisecond latencies; the serve loops run in an executor process wired exactly as `xs serve` wires them"),
 "C04":("fault_enumeration","crash-point injection (LD_PRELOAD syscall-level kill and power-loss images) over generated workloads, reference model + cross-path oracle after reopen",
  "Generated workloads run in a process with an LD_PRELOAD shim that numbers every file-system mutation under the store directory and SIGKILLs the process at a chosen one, before or after the call, as a process-kill image or as a power-loss image (journal bytes since the last fsync zeroed except a torn prefix). quick samples one event per workload (640 images), thorough additionally enumerates every event x {before, after} for 160 workloads. The store is reopened in a fresh process and checked: reopens; acknowledged operations reflected; in-flight operation all-or-nothing; by-id/all-stream/context-stream/head agreement; nothing unsent; content of visible frames present and hashing correctly (kill images); still writable. Enumeration of the interposed events, not of all possible disk states.",
  "granularity = libc call; renames done by raw syscalls (tempfile/rustix inside the CAS library) are not interposed; power loss is modelled for fjall journal files only; event numbers shift between runs (background threads), the oracle depends only on acknowledgements"),
 "C06":("exploration","generated context pairs and option combinations with probe/sentinel oracle over every Store and HTTP access path",
  "For generated pairs of contexts (zero, registered, numerically adjacent ids) and a topic stored in both, every scoped path is opened on B (follow reads in all option combinations, GET /?follow&context-id as NDJSON and SSE, GET /head?follow&context), probes (stored and ephemeral) go to A and a sentinel to B; each path must deliver the sentinel and nothing of A; non-following reads, limits, last-id taken from the other context, head and the HTTP renderings are checked the same way, and the all-contexts read must see both. Sampling, not proof.",
  "negative checks are closed by a sentinel; nu-level paths (handler dispatch/output, .cat/.head in scripts, generator input) are covered by the nu checks when claimed"),
 "C10":("exploration","round-trip property testing across content entry points with an independently computed SHA-256, racing follower with content probe",
  "Generated byte strings (empty, 1 byte, invalid UTF-8, around 8 KiB, 64 KiB+1, 300 KiB) written through each non-nu entry point (cas_insert/_sync, cas_writer/_sync, POST /cas, POST /{topic}, Content-Length and chunked) and read back through another (cas_read/_sync, GET /cas), with kill+reopen in between; the reported hash must equal the SHA-256 computed by the harness; a follower reads the content of every delivered frame the instant it arrives while the appender is optionally held after its broadcast. Sampling, not proof.",
  "nu entry points are checked by C15/C18/C19 when claimed; crash instants by C04 when claimed"),
 "C12":("exploration","round-trip and differential (harness-owned grammar/decoder) property testing in-process + end-to-end histories with the full meta domain",
  "Hundreds of thousands of generated values per run: every TTL through query-string, JSON and parse_ttl against the documented spellings; near-grammar TTL strings against a harness-owned grammar; every ReadOptions value through the client's query encoder into the server's parser, compared field by field; malformed option strings must be rejected; Frame values (unicode topics, sha1/256/512 and multi-hash integrity, floats by bit pattern, huge integers, nesting to 130) value->JSON->value and hand-built import JSON->value. Plus end-to-end histories (Store API, xs-meta header, POST /import) with the same meta domain followed by get/reads/reopen against the reference model. Sampling, not proof.",
  "trusts serde_json's printer; metas nested deeper than 100 may be refused by xs (then must leave no trace) or accepted (then must read back)"),
 "C20":("exploration","differential testing: same observation queries on source and import target, plus reference model on each store",
  "Generated source histories are exported (all-contexts read + contents) and imported into a fresh store through the Store API or POST /cas + POST /import in a generated permutation with duplicates and unstorable frames mixed in, optionally killing and reopening the target; all streams, every by-id lookup, heads for topics x contexts, every content and per-context probe appends are then compared between source and target directly. Sampling, not proof.",
  HIST_NOTE+"; the xs.nu .export/.import scripts themselves are not executed (no nu binary): the same HTTP endpoints are driven directly"),
 "C13":("exploration","model-based request-sequence testing over raw HTTP/1.1 against the reference model, plus refused-request grammar",
  "Generated request sequences over every route, written as raw bytes to the unix socket by a hand-written client (so 'no response' is observable): valid operations are checked against the same reference model as the Store API (NDJSON and SSE renderings decoded field by field), requests that must be refused (bad ids/TTLs/contexts/xs-meta/options/hashes/import bodies/methods) must get a 4xx, change nothing (full store comparison through the Store API) and leave GET /version answering. Sampling, not proof.",
  HIST_NOTE+"; path topics are drawn from URL-unreserved characters (the API does not percent-decode); one known finding (500 instead of 4xx when the store refuses a frame) is tolerated by exact signature"),
}
checks=[]
for pid,(lvl,tech,text,note) in C.items():
    checks.append({
      "property_id":pid,
      "quick_cmd":f"./check {pid} quick",
      "thorough_cmd":f"./check {pid} thorough",
      "evidence_file":f"/verif/evidence/{pid}.json",
      "replay_cmd_template":f"./check {pid} --replay {{path}}",
      "engine":"xsverif",
      "level_claimed":{"category":lvl,"text":text,"design_ref":"DESIGN.md section 7 "+pid},
      "level_note":note,
      "technique":tech,
    })
order=sorted(C.keys())
C={k:C[k] for k in order}
checks.sort(key=lambda c:c["property_id"])
na=[{"property_id":p["id"],"reason":"check not built yet in this round (planned, see DESIGN.md section 7)"} for p in props if p["id"] not in C]
hook=subprocess.run(["git","-C","/repo","log","--format=%h","--grep=^verif hooks"],capture_output=True,text=True).stdout.split()
m={
 "version":1,
 "setup_cmd":"./setup.sh",
 "hooks":{
   "guard":"cargo feature `verif` (cfg(feature = \"verif\")) of the cross-stream crate",
   "enable":"the harness crate depends on /repo with features=[\"verif\"]; ./check rebuilds it from /repo's working tree before every run",
   "baseline_off_cmd":"cd /repo && cargo test --workspace --no-fail-fast --offline",
   "source_commits":hook,
   "add_only":True
 },
 "engines":[{"name":"xsverif","path":"/verif/harness","serves_properties":list(C.keys()),"kind_free_text":"Rust binary: proptest strategies + interpreter + reference model in the driver; real xs in executor child processes (JSON lines control channel, raw HTTP over the store's unix socket)"}],
 "checks":checks,
 "not_applicable":na,
 "notes":"exit codes: 0 held, 1 VIOLATION line, 2 infrastructure. VERIF_SEED selects the proptest seeds (16 logical shards)."
}
json.dump(m,open('/verif/MANIFEST.json','w'),indent=1)
print("claimed:",list(C.keys()))
