#!/bin/bash
# tools/mutant.sh <patch.diff> "<check ids>" [tier]  -- apply a seeded change to /repo, run checks, revert.
# Prints one line per check: <id> rc=<rc> <VIOLATION line or summary>
PATCH="$1"; IDS="$2"; TIER="${3:-quick}"
cd /verif
if ! git -C /repo diff --quiet; then echo "/repo has local changes; refusing" >&2; exit 2; fi
if ! git -C /repo apply --3way "$PATCH" 2>/tmp/mutant.apply.log; then
  if ! git -C /repo apply "$PATCH" 2>>/tmp/mutant.apply.log; then echo "patch does not apply: $(tail -2 /tmp/mutant.apply.log)"; git -C /repo checkout -- . ; exit 3; fi
fi
git -C /repo reset -q 2>/dev/null
export XSV_ROOT=/tmp/xsv-mutant
rm -rf $XSV_ROOT; mkdir -p $XSV_ROOT; cp /verif/known_findings.json $XSV_ROOT/
( cd harness && cargo build --offline 2>&1 | grep -E "^error" -A8 | head -20 )
for id in $IDS; do
  out=$(harness/target/debug/xsverif check "$id" "$TIER" 2>&1); rc=$?
  line=$(echo "$out" | grep -E "^VIOLATION|^INFRA" | head -1)
  why=$(echo "$out" | grep -E "^failure" | head -1 | cut -c1-300)
  sum=$(echo "$out" | grep -E "evaluations=" | tail -1)
  echo "$id rc=$rc $line | $why | $sum"
done
git -C /repo checkout -- . 
# rebuild from the restored sources: the harness binary must never stay a mutant build
( cd harness && cargo build --offline 2>&1 | grep -E "^error" -A8 | head -20 )
git -C /repo status --short | grep -v '^??' | head -3
rm -rf $XSV_ROOT/evidence
