#!/bin/bash
# tools/seeds.sh "<ids>" <from> <to> [tier]   -- run checks over several seeds, report non-zero exits
cd "$(dirname "$0")/.."
IDS="$1"; FROM="$2"; TO="$3"; TIER="${4:-quick}"
fail=0
if [ -n "${XSV_ROOT:-}" ] && [ "$XSV_ROOT" != /verif ]; then mkdir -p "$XSV_ROOT"; cp /verif/known_findings.json "$XSV_ROOT/"; fi
for id in $IDS; do
  for s in $(seq "$FROM" "$TO"); do
    out=$(VERIF_SEED=$s harness/target/debug/xsverif check "$id" "$TIER" 2>&1); rc=$?
    if [ $rc -ne 0 ]; then fail=1; echo "== $id seed=$s rc=$rc"; echo "$out" | tail -n 4 | cut -c1-600; fi
  done
  echo "$id done"
done
exit $fail
